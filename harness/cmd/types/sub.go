package main

// C08 driver. Input: {"types":[terms], "exact":[[supertype indices]...], "dev":[[...]...]} -- the subtype
// relation of spec/lang/Subtype.tla evaluated by TLC over the universe of Types.tla, in the exact variant
// and in the named deviation DevNeverKind (indices are 1-based positions in "types").
//
// Every pair is evaluated with six implementation entry points and compared with the specification and
// with each other; reflexivity, bottom, top and transitivity are then checked on each implementation's table.

import (
	"encoding/json"
	"fmt"
	"os"
	"runtime"
	"sync"

	"github.com/onflow/cadence/common"
	"github.com/onflow/cadence/interpreter"
	"github.com/onflow/cadence/sema"

	"verifharness/util"
)

type subTable struct {
	Types []TT    `json:"types"`
	Exact [][]int `json:"exact"`
	Dev   [][]int `json:"dev"`
}

var subImpls = []string{
	"sema.CheckSubTypeWithoutEquality(hand-written)+Equal",
	"sema.CheckSubTypeWithoutEquality_gen+Equal",
	"sema.IsSubType",
	"interpreter.CheckSubTypeWithoutEquality_gen(static)+Equal",
	"interpreter.IsSubType(static)",
	"interpreter.IsSubTypeOfSemaType(static,sema)",
}

type bitset []uint64

func newBitset(n int) bitset    { return make(bitset, (n+63)/64) }
func (b bitset) set(i int)      { b[i/64] |= 1 << (uint(i) % 64) }
func (b bitset) get(i int) bool { return b[i/64]&(1<<(uint(i)%64)) != 0 }
func (b bitset) subsetOf(o bitset) (bool, int) {
	for w := range b {
		if d := b[w] &^ o[w]; d != 0 {
			for k := 0; k < 64; k++ {
				if d&(1<<uint(k)) != 0 {
					return false, w*64 + k
				}
			}
		}
	}
	return true, -1
}

func toBits(rows [][]int, n int) []bitset {
	res := make([]bitset, n)
	for i := range res {
		res[i] = newBitset(n)
		for _, j := range rows[i] {
			res[i].set(j - 1)
		}
	}
	return res
}

func runSub(in, out string) {
	o := util.NewOut(out)
	defer o.Close()
	data, err := os.ReadFile(in)
	if err != nil {
		util.Die("%v", err)
	}
	var tab subTable
	if err := json.Unmarshal(data, &tab); err != nil {
		util.Die("table: %v", err)
	}
	n := len(tab.Types)
	if n == 0 || len(tab.Exact) != n || len(tab.Dev) != n {
		util.Die("malformed table")
	}
	exact, dev := toBits(tab.Exact, n), toBits(tab.Dev, n)
	harness := func(msg, src string) { o.Write(Fail{Harness: true, Kind: "harness", Msg: msg, Src: src}) }

	loc := common.StringLocation("types-universe")
	// phase 0: kinds (for the resource annotation of the declarations)
	env0, err := newTypeEnv(loc, "")
	if err != nil {
		harness(err.Error(), "")
		return
	}
	syn := make([]string, n)
	isRes := make([]bool, n)
	canWrite := make([]bool, n)
	for i := range tab.Types {
		canWrite[i] = denotableSyntax(&tab.Types[i])
		isRes[i] = env0.build(&tab.Types[i], false).IsResourceType()
		if canWrite[i] {
			syn[i] = syntax(&tab.Types[i], false)
		} else {
			syn[i] = "Int" // placeholder line, ignored
		}
	}
	env, declared, why, err := newTypeEnvWithDecls(syn, isRes, loc)
	if err != nil {
		harness(err.Error(), "")
		return
	}
	tys := make([]sema.Type, n)
	denotable := make([]bool, n)
	nden := 0
	for i := range tab.Types {
		tys[i] = env.build(&tab.Types[i], (i+int(util.Seed()))%2 == 1)
		if !canWrite[i] {
			continue
		}
		if declared[i] == nil {
			o.Write(Fail{Note: true, Kind: "not-denotable", Msg: fmt.Sprintf("%s: annotation rejected by the checker (%s)", syn[i], why[i])})
			continue
		}
		if !declared[i].Equal(tys[i]) || !tys[i].Equal(declared[i]) {
			harness(fmt.Sprintf("type builder: term %s built as %s but the checker reads the annotation as %s", syn[i], tys[i], declared[i]), "")
			return
		}
		denotable[i] = true
		nden++
	}
	// which types take part in the verdict: denotable ones, Any (top only), and function types with a
	// type parameter (not writable in source, but named by the property)
	judged := make([]bool, n)
	anyIdx, neverIdx := -1, -1
	for i := range tab.Types {
		t := &tab.Types[i]
		judged[i] = denotable[i] || (t.K == "prim" && t.name() == "Any") || (t.K == "fun" && !canWrite[i])
		if t.K == "prim" && t.name() == "Any" {
			anyIdx = i
		}
		if t.K == "prim" && t.name() == "Never" {
			neverIdx = i
		}
	}
	if anyIdx < 0 || neverIdx < 0 {
		util.Die("universe lacks Any/Never")
	}

	sts := make([]interpreter.StaticType, n)
	for i := range tys {
		sts[i] = interpreter.ConvertSemaToStaticType(nil, tys[i])
	}
	nimpl := len(subImpls)
	impl := make([][]bitset, nimpl)
	for k := range impl {
		impl[k] = make([]bitset, n)
		for i := range impl[k] {
			impl[k][i] = newBitset(n)
		}
	}
	var mu sync.Mutex
	evals, nontriv, fails := 0, 0, 0
	crashed := make([]map[[2]int]bool, nimpl)
	for k := range crashed {
		crashed[k] = map[[2]int]bool{}
	}
	report := func(f Fail) {
		f.Fail = true
		mu.Lock()
		fails++
		nf := fails
		mu.Unlock()
		if nf <= 5000 {
			o.Write(f)
		}
	}
	name := func(i int) string {
		if canWrite[i] {
			return syn[i]
		}
		return tys[i].String()
	}

	workers := runtime.NumCPU()
	inters := make([]*interpreter.Interpreter, workers)
	for w := range inters {
		inters[w], err = newInterpreter(env.c, loc)
		if err != nil {
			harness(err.Error(), "")
			return
		}
	}
	var wg sync.WaitGroup
	rows := make(chan int, n)
	for i := 0; i < n; i++ {
		rows <- i
	}
	close(rows)
	for w := 0; w < workers; w++ {
		wg.Add(1)
		go func(inter *interpreter.Interpreter) {
			defer wg.Done()
			for i := range rows {
				le, lnt := 0, 0
				for j := 0; j < n; j++ {
					a, b := tys[i], tys[j]
					sa, sb := sts[i], sts[j]
					fs := []func() bool{
						func() bool { return a.Equal(b) || sema.CheckSubTypeWithoutEquality(a, b) },
						func() bool { return a.Equal(b) || sema.CheckSubTypeWithoutEquality_gen(a, b) },
						func() bool { return sema.IsSubType(a, b) },
						func() bool { return sa.Equal(sb) || interpreter.CheckSubTypeWithoutEquality_gen(inter, sa, sb) },
						func() bool { return interpreter.IsSubType(inter, sa, sb) },
						func() bool { return interpreter.IsSubTypeOfSemaType(inter, sa, b) },
					}
					se, sd := exact[i].get(j), dev[i].get(j)
					var got, panicked [8]bool
					for k, f := range fs {
						r, p := recoverBool(f)
						if p != "" {
							panicked[k] = true
							mu.Lock()
							crashed[k][[2]int{i, j}] = true
							mu.Unlock()
							if judged[i] && judged[j] {
								report(Fail{Kind: "panic", Impl: subImpls[k], Deviation: "none", Shape: tab.Types[i].K + "/" + tab.Types[j].K,
									Case: map[string]any{"sub": name(i), "super": name(j)},
									Msg:  fmt.Sprintf("%s panics on %s <: %s: %s", subImpls[k], name(i), name(j), p)})
							}
							continue
						}
						got[k] = r
						if r {
							impl[k][i].set(j) // rows are owned by one goroutine
						}
					}
					if !(judged[i] && judged[j]) {
						continue
					}
					le += nimpl
					if i != j && (se && i != neverIdx && j != anyIdx || tab.Types[i].K == tab.Types[j].K && tab.Types[i].K != "prim") {
						lnt++
					}
					for k := range fs {
						if got[k] == se || panicked[k] {
							continue
						}
						d := "none"
						if got[k] == sd {
							d = "DevNeverKind"
						}
						report(Fail{Kind: "spec-diff", Impl: subImpls[k], Deviation: d,
							Case: map[string]any{"sub": name(i), "super": name(j), "impl": got[k], "spec": se, "spec_DevNeverKind": sd},
							Msg:  fmt.Sprintf("%s: %s <: %s is %v, specification says %v (DevNeverKind variant: %v)", subImpls[k], name(i), name(j), got[k], se, sd)})
					}
					for k := 1; k < nimpl; k++ {
						if got[k] != got[0] && !panicked[k] && !panicked[0] {
							d := "none"
							if se != sd {
								d = "DevNeverKind"
							}
							report(Fail{Kind: "impl-disagree", Impl: subImpls[k], Deviation: d,
								Case: map[string]any{"sub": name(i), "super": name(j), subImpls[0]: got[0], subImpls[k]: got[k]},
								Msg:  fmt.Sprintf("%s <: %s: %s says %v, %s says %v", name(i), name(j), subImpls[0], got[0], subImpls[k], got[k])})
						}
					}
				}
				mu.Lock()
				evals += le
				nontriv += lnt
				mu.Unlock()
			}
		}(inters[w])
	}
	wg.Wait()

	// laws on each implementation's own table (over the judged types)
	triples := 0
	for k := 0; k < nimpl; k++ {
		for i := 0; i < n; i++ {
			if !judged[i] {
				continue
			}
			if !impl[k][i].get(i) {
				report(Fail{Kind: "law-reflexive", Impl: subImpls[k], Deviation: "none", Case: map[string]any{"type": name(i)},
					Msg: fmt.Sprintf("%s: %s is not a subtype of itself", subImpls[k], name(i))})
			}
			if !impl[k][neverIdx].get(i) {
				report(Fail{Kind: "law-bottom", Impl: subImpls[k], Deviation: "none", Case: map[string]any{"type": name(i)},
					Msg: fmt.Sprintf("%s: Never is not a subtype of %s", subImpls[k], name(i))})
			}
			if !impl[k][i].get(anyIdx) {
				report(Fail{Kind: "law-top", Impl: subImpls[k], Deviation: "none", Case: map[string]any{"type": name(i)},
					Msg: fmt.Sprintf("%s: %s is not a subtype of Any", subImpls[k], name(i))})
			}
			for j := 0; j < n; j++ {
				if !judged[j] || !impl[k][i].get(j) {
					continue
				}
				triples += n
				// every supertype of j must be a supertype of i
				for l := 0; l < n; l++ {
					if !judged[l] || !impl[k][j].get(l) || impl[k][i].get(l) {
						continue
					}
					if crashed[k][[2]int{i, j}] || crashed[k][[2]int{j, l}] || crashed[k][[2]int{i, l}] {
						continue // no answer for one of the pairs (reported as a panic)
					}
					// The exact relation is transitive, so one of the three entries differs from it. The triple is
					// explained by DevNeverKind iff every entry that differs from the exact relation is the
					// deviation's entry (the implementations follow the deviation on some pairs only).
					d := "DevNeverKind"
					for _, pr := range [][3]int{{i, j, 1}, {j, l, 1}, {i, l, 0}} {
						v := pr[2] == 1
						if exact[pr[0]].get(pr[1]) != v && dev[pr[0]].get(pr[1]) != v {
							d = "none"
						}
					}
					report(Fail{Kind: "law-transitive", Impl: subImpls[k], Deviation: d,
						Case: map[string]any{"a": name(i), "b": name(j), "c": name(l)},
						Msg:  fmt.Sprintf("%s: %s <: %s and %s <: %s but not %s <: %s", subImpls[k], name(i), name(j), name(j), name(l), name(i), name(l))})
				}
			}
		}
	}
	o.Write(Fail{Sample: true, Kind: "pair", Msg: "table cell", Case: map[string]any{"sub": name(n / 2), "super": name(n / 3), "spec": exact[n/2].get(n / 3)}})
	o.Write(Fail{Sample: true, Kind: "pair", Msg: "table cell", Case: map[string]any{"sub": name(n - 1), "super": name(n - 2), "spec": exact[n-1].get(n - 2)}})
	njudged := 0
	for _, j := range judged {
		if j {
			njudged++
		}
	}
	o.Write(map[string]any{"summary": true, "types": n, "denotable": nden, "judged": njudged, "implementations": nimpl,
		"evaluations": evals, "distinct_nontrivial": nontriv, "triples": triples, "fails": fails})
}
