// contracts: replays behaviours of spec/system/Contracts.tla into the real runtime (C26).
//
//	contracts <behaviours.ndjson> <results.ndjson> [engines=interp,vm]
//
// A behaviour is {"id":n,"steps":[label...]}: the `last` records of the specification (begin, the calls
// with the predicted outcome, commit / abort); a step that ends a transaction carries "com", the
// committed view the specification predicts (per account and name: deployed source class, the source
// whose initializer produced the contract value, borrowable?). The calls between begin and the end of
// the transaction are rendered into ONE transaction signed by both accounts; every call logs its
// result. After every transaction a fresh script re-reads names / get(...).code / borrow for every
// account and name; after the last transaction of a behaviour each (account, name) is additionally
// imported by a script of its own (the contract value's field shows whose initializer ran).
package main

import (
	"crypto/sha3"
	"encoding/hex"
	"encoding/json"
	goerrors "errors"
	"fmt"
	"os"
	"runtime"
	"sort"
	"strings"
	"sync/atomic"

	"github.com/onflow/cadence"
	"github.com/onflow/cadence/common"
	cdcruntime "github.com/onflow/cadence/runtime"
	"github.com/onflow/cadence/stdlib"

	"verifharness/host"
	"verifharness/util"
)

type Ev struct {
	E string `json:"e"`
	A string `json:"a"`
	N string `json:"n"`
	S string `json:"s"`
}
type Entry struct {
	Src    string `json:"src"`
	Inst   string `json:"inst"`
	Borrow bool   `json:"borrow"`
}
type Step struct {
	Op    string                      `json:"op"`
	A     string                      `json:"a"`
	N     string                      `json:"n"`
	S     string                      `json:"s"`
	K     string                      `json:"k"`
	Res   json.RawMessage             `json:"res"`
	Fresh bool                        `json:"fresh"`
	Ev    []Ev                        `json:"ev"`
	Com   map[string]map[string]Entry `json:"com"`
	View  map[string]map[string]Entry `json:"view"` // in-transaction view after the step (src, borrow)
}
type Beh struct {
	ID    int    `json:"id"`
	Steps []Step `json:"steps"`
}
type Fail struct {
	ID      int    `json:"id"`
	Engine  string `json:"engine"`
	Kind    string `json:"kind"`
	Op      string `json:"op"`
	Src     string `json:"srcclass,omitempty"`
	Ctx     string `json:"ctx,omitempty"`
	ErrType string `json:"errtype,omitempty"`
	Harness bool   `json:"harness,omitempty"`
	Step    int    `json:"step"`
	Msg     string `json:"msg"`
	Source  string `json:"src,omitempty"`
	Beh     *Beh   `json:"beh,omitempty"`
}

var addrs = map[string]common.Address{"A1": host.Addr(2), "A2": host.Addr(3)}
var acctNames = []string{"A1", "A2"}
var ctrNames = []string{"A", "B"}

// code renders a source class for contract name n.
func code(s, n string) string {
	switch s {
	case "v1":
		return fmt.Sprintf("access(all) contract %s { access(all) var x: Int; init() { self.x = 1 } } // v1", n)
	case "v2":
		return fmt.Sprintf("access(all) contract %s { access(all) var x: Int; init() { self.x = 2 }; access(all) fun f(): Int { return 2 } } // v2", n)
	case "retyped":
		return fmt.Sprintf("access(all) contract %s { access(all) var x: Bool; init() { self.x = true } } // retyped", n)
	case "enum":
		return fmt.Sprintf("access(all) contract %s { access(all) var x: Int; access(all) enum E: UInt8 { access(all) case a }; init() { self.x = 3 } } // enum", n)
	case "iface":
		return fmt.Sprintf("access(all) contract interface %s { } // iface", n)
	case "typeerr":
		return fmt.Sprintf("access(all) contract %s { access(all) var x: Int; init() { self.x = true } } // typeerr", n)
	case "mismatch":
		return fmt.Sprintf("access(all) contract %sX { access(all) var x: Int; init() { self.x = 1 } } // mismatch", n)
	case "syntax":
		return fmt.Sprintf("access(all) contract %s { ", n)
	}
	panic("unknown source class " + s)
}

// instValue is the value of field x after the initializer of source class s ran.
func instValue(s string) string {
	return map[string]string{"v1": "1", "v2": "2", "retyped": "true", "enum": "3", "iface": "iface"}[s]
}

func codeHex(s, n string) string { return hex.EncodeToString([]byte(code(s, n))) }

func renderOp(i int, s Step) string {
	switch s.Op {
	case "add", "update":
		return fmt.Sprintf("    let d%d = %s.contracts.%s(name: %q, code: \"%s\".decodeHex()); log(\"ok:\".concat(d%d.name).concat(\"|\").concat(d%d.address.toString()).concat(\"|\").concat(String.fromUTF8(d%d.code)!))\n",
			i, s.A, s.Op, s.N, codeHex(s.S, s.N), i, i, i)
	case "tryUpdate":
		return fmt.Sprintf("    let r%d = %s.contracts.tryUpdate(name: %q, code: \"%s\".decodeHex()); if let d%d = r%d.deployedContract { log(\"ok:\".concat(d%d.name).concat(\"|\").concat(d%d.address.toString()).concat(\"|\").concat(String.fromUTF8(d%d.code)!)) } else { log(\"failed\") }\n",
			i, s.A, s.N, codeHex(s.S, s.N), i, i, i, i, i)
	case "remove":
		return fmt.Sprintf("    if let d%d = %s.contracts.remove(name: %q) { log(\"removed:\".concat(d%d.name).concat(\"|\").concat(String.fromUTF8(d%d.code)!)) } else { log(\"nil\") }\n", i, s.A, s.N, i, i)
	case "get":
		return fmt.Sprintf("    if let d%d = %s.contracts.get(name: %q) { log(\"some:\".concat(d%d.name).concat(\"|\").concat(String.fromUTF8(d%d.code)!)) } else { log(\"nil\") }\n", i, s.A, s.N, i, i)
	case "names":
		return fmt.Sprintf("    var ns%d = \"\"; for n in %s.contracts.names { ns%d = ns%d.concat(n).concat(\",\") }; log(ns%d)\n", i, s.A, i, i, i)
	case "borrow":
		return fmt.Sprintf("    log(%s.contracts.borrow<&AnyStruct>(name: %q) != nil ? \"true\" : \"false\")\n", s.A, s.N)
	case "abort":
		return "    panic(\"abort\")\n"
	}
	panic("renderOp " + s.Op)
}

// renderView re-reads names / get(...).code / borrow of every account through the signers' own account
// references, inside the running transaction, and logs them as one line.
func renderView(i int) string {
	var sb strings.Builder
	fmt.Fprintf(&sb, "    var vw%d = \"view\"\n", i)
	for _, a := range acctNames {
		fmt.Fprintf(&sb, "    let vn%[1]d%[2]s = %[2]s.contracts.names\n", i, a)
		for _, n := range ctrNames {
			fmt.Fprintf(&sb, "    let vg%[1]d%[2]s%[3]s = %[2]s.contracts.get(name: %[3]q)\n    vw%[1]d = vw%[1]d.concat(\"|%[2]s/%[3]s:\").concat(vn%[1]d%[2]s.contains(%[3]q) ? \"listed\" : \"unlisted\").concat(\",\").concat(vg%[1]d%[2]s%[3]s == nil ? \"nil\" : String.fromUTF8(vg%[1]d%[2]s%[3]s!.code)!).concat(\",\").concat(%[2]s.contracts.borrow<&AnyStruct>(name: %[3]q) != nil ? \"borrowable\" : \"not-borrowable\")\n", i, a, n)
		}
	}
	fmt.Fprintf(&sb, "    log(vw%d)\n", i)
	return sb.String()
}

func expectView(v map[string]map[string]Entry) string {
	out := "view"
	for _, a := range acctNames {
		for _, n := range ctrNames {
			e := entry(v, a, n)
			listed, c, b := "unlisted", "nil", "not-borrowable"
			if e.Src != "none" {
				listed, c = "listed", code(e.Src, n)
			}
			if e.Borrow {
				b = "borrowable"
			}
			out += "|" + a + "/" + n + ":" + listed + "," + c + "," + b
		}
	}
	return out
}

func resSet(s Step) []string {
	var xs []string
	json.Unmarshal(s.Res, &xs)
	sort.Strings(xs)
	return xs
}

// expectLog is the log line the specification predicts for a completed call.
func expectLog(s Step) string {
	okLine := func() string {
		return "ok:" + s.N + "|" + addrs[s.A].HexWithPrefix() + "|" + code(s.S, s.N)
	}
	switch s.Op {
	case "add", "update":
		return okLine()
	case "tryUpdate":
		if s.K == "ok" {
			return okLine()
		}
		return "failed"
	case "remove":
		if s.K == "nil" {
			return "nil"
		}
		return "removed:" + s.N + "|" + code(s.S, s.N)
	case "get":
		var src string
		json.Unmarshal(s.Res, &src)
		if src == "none" {
			return "nil"
		}
		return "some:" + s.N + "|" + code(src, s.N)
	case "names":
		xs := resSet(s)
		out := ""
		for _, x := range xs {
			out += x + ","
		}
		return out
	case "borrow":
		return strings.TrimSpace(string(s.Res))
	}
	return "?"
}

func normNames(s string) string {
	if s == "" {
		return ""
	}
	parts := strings.Split(strings.TrimSuffix(s, ","), ",")
	sort.Strings(parts)
	return strings.Join(parts, ",") + ","
}

func expectedEvents(steps []Step) []string {
	var out []string
	for _, s := range steps {
		for _, e := range s.Ev {
			h := sha3.Sum256([]byte(code(e.S, e.N)))
			parts := make([]string, len(h))
			for i, b := range h {
				parts[i] = fmt.Sprint(b)
			}
			name := map[string]string{"Added": "AccountContractAdded", "Updated": "AccountContractUpdated", "Removed": "AccountContractRemoved"}[e.E]
			out = append(out, fmt.Sprintf("flow.%s(address=%s,codeHash=[%s],contract=%q)", name, addrs[e.A].HexWithPrefix(), strings.Join(parts, ", "), e.N))
		}
	}
	return out
}

// errKindOK: does the runtime error fit one of the refusal kinds the specification allows?
func errKindOK(kinds []string, op string, err error) bool {
	msg := err.Error()
	var deploy *stdlib.InvalidContractDeploymentError
	var upd *stdlib.ContractUpdateError
	var rem *stdlib.ContractRemovalError
	isDeploy := goerrors.As(err, &deploy)
	isUpd := goerrors.As(err, &upd)
	for _, k := range kinds {
		switch k {
		case "exists":
			if strings.Contains(msg, "cannot overwrite existing contract") {
				return true
			}
		case "missing":
			if strings.Contains(msg, "cannot update non-existing contract") {
				return true
			}
		case "invalid":
			if (isDeploy && !isUpd) || strings.Contains(msg, "the name argument must match the name of the declaration") {
				return true
			}
		case "incompatible":
			if isDeploy && isUpd {
				return true
			}
		case "enum":
			if goerrors.As(err, &rem) {
				return true
			}
		}
	}
	return false
}

var projSrc = func() string {
	var sb strings.Builder
	sb.WriteString("access(all) fun main(): [String] {\n  let out: [String] = []\n")
	for _, a := range acctNames {
		fmt.Fprintf(&sb, "  let c%[1]s = getAccount(%[2]s).contracts\n  var ns%[1]s = \"\"; for n in c%[1]s.names { ns%[1]s = ns%[1]s.concat(n).concat(\",\") }; out.append(ns%[1]s)\n", a, addrs[a].HexWithPrefix())
		for _, n := range ctrNames {
			fmt.Fprintf(&sb, "  if let d = c%[1]s.get(name: %[2]q) { out.append(d.name.concat(\"|\").concat(d.address.toString()).concat(\"|\").concat(String.fromUTF8(d.code)!)) } else { out.append(\"nil\") }\n  out.append(c%[1]s.borrow<&AnyStruct>(name: %[2]q) != nil ? \"true\" : \"false\")\n", a, n)
		}
	}
	sb.WriteString("  return out\n}\n")
	return sb.String()
}()

func isRenderError(err error) bool {
	var pc *cdcruntime.ParsingCheckingError
	var deploy *stdlib.InvalidContractDeploymentError
	return goerrors.As(err, &pc) && !goerrors.As(err, &deploy)
}

func entry(com map[string]map[string]Entry, a, n string) Entry {
	if e, ok := com[a][n]; ok {
		return e
	}
	return Entry{Src: "none", Inst: "none"}
}

func replay(b *Beh, useVM bool) *Fail {
	eng := "interp"
	if useVM {
		eng = "vm"
	}
	w := host.NewWorld()
	signers := []common.Address{addrs["A1"], addrs["A2"]}
	var cur []Step
	var beginView map[string]map[string]Entry
	var lastCom map[string]map[string]Entry
	lastEnd := -1
	for si, s := range b.Steps {
		if s.Op == "commit" || s.Op == "abort" || s.K == "err" {
			lastEnd = si
		}
	}
	for si, s := range b.Steps {
		if s.Op == "begin" || s.Op == "end" {
			cur = nil
			beginView = s.View
			continue
		}
		endsTx := s.Op == "commit" || s.Op == "abort" || s.K == "err"
		if s.Op != "commit" {
			cur = append(cur, s)
		}
		if !endsTx {
			continue
		}
		var sb strings.Builder
		sb.WriteString("transaction {\n  prepare(A1: auth(Contracts) &Account, A2: auth(Contracts) &Account) {\n")
		// expected log lines with the call they belong to (-1: the view read when the transaction begins)
		var want []string
		var owner []int
		var isView []bool
		if beginView != nil {
			sb.WriteString(renderView(1000))
			want, owner, isView = append(want, expectView(beginView)), append(owner, -1), append(isView, true)
		}
		for i, c := range cur {
			sb.WriteString(renderOp(i, c))
			if c.Op == "abort" || c.K == "err" {
				continue
			}
			want, owner, isView = append(want, expectLog(c)), append(owner, i), append(isView, false)
			if c.View != nil {
				sb.WriteString(renderView(i))
				want, owner, isView = append(want, expectView(c.View)), append(owner, i), append(isView, true)
			}
		}
		sb.WriteString("  }\n}\n")
		src := sb.String()
		r := w.Tx(src, signers, useVM)
		fail := func(kind, op, msg string) *Fail {
			return &Fail{ID: b.ID, Engine: eng, Kind: kind, Op: op, Step: si, Msg: msg, Source: src, Beh: b}
		}
		// which call was running when the transaction stopped: the owner of the first missing result line
		running := func() (Step, bool) {
			for i := len(r.Logs); i < len(want); i++ {
				if !isView[i] {
					return cur[owner[i]], true
				}
			}
			if len(r.Logs) >= len(want) && len(cur) > 0 && (cur[len(cur)-1].K == "err") {
				return cur[len(cur)-1], true
			}
			return Step{}, false
		}
		txCtx := func() string {
			// describe the shape of the transaction semantically (for known-finding matching)
			var ops []string
			for _, c := range cur {
				ops = append(ops, c.Op)
			}
			ctx := "ops=" + strings.Join(ops, ",")
			for i, c := range cur {
				if c.Op != "add" || c.K != "ok" {
					continue
				}
				for _, d := range cur[i+1:] {
					if d.Op == "remove" && d.K == "ok" && d.A == c.A && d.N == c.N {
						ctx += ";add-then-remove-same-name"
					}
				}
			}
			return ctx
		}
		if host.IsInternal(r.Class) {
			f := fail("internal", "commit", r.Class+": "+r.Err.Error())
			f.Ctx = txCtx()
			if rs, ok := running(); ok {
				f.Op = rs.Op
				f.Src = rs.S
				if rs.Op == "borrow" && rs.Fresh {
					f.Ctx += ";borrow-of-contract-added-in-same-transaction"
				}
			}
			f.ErrType = strings.TrimPrefix(r.Class, "internal:")
			return f
		}
		if r.Err != nil && isRenderError(r.Err) {
			f := fail("render", s.Op, r.Err.Error())
			f.Harness = true
			return f
		}
		wantErr := s.Op != "commit"
		if (r.Err != nil) != wantErr {
			op := s.Op
			srcClass := s.S
			if rs, ok := running(); ok && r.Err != nil {
				op, srcClass = rs.Op, rs.S
			}
			f := fail("outcome", op, fmt.Sprintf("transaction outcome: model predicts failure=%v, runtime returned %v", wantErr, r.Err))
			f.Src = srcClass
			return f
		}
		if wantErr {
			if s.Op == "abort" {
				if !strings.Contains(r.Err.Error(), "panic: abort") {
					return fail("errkind", "abort", fmt.Sprintf("model predicts the abort, runtime failed earlier with %s: %v", r.Class, r.Err))
				}
			} else if !errKindOK(resSet(s), s.Op, r.Err) {
				f := fail("errkind", s.Op, fmt.Sprintf("model predicts refusal %v, runtime failed with %s: %v", resSet(s), r.Class, r.Err))
				f.Src = s.S
				return f
			}
			if len(r.Writes) != 0 {
				return fail("write-on-failure", s.Op, fmt.Sprintf("failed transaction wrote %d registers", len(r.Writes)))
			}
		}
		got := append([]string(nil), r.Logs...)
		for i := range want {
			if i < len(got) && !isView[i] && cur[owner[i]].Op == "names" {
				got[i] = normNames(got[i])
			}
			if i >= len(got) || got[i] != want[i] {
				g := "<missing>"
				if i < len(got) {
					g = got[i]
				}
				if isView[i] {
					after := "begin"
					srcClass := ""
					if owner[i] >= 0 {
						c := cur[owner[i]]
						after, srcClass = c.Op+":"+c.K, c.S
					}
					f := fail("tx-view", "view", fmt.Sprintf("names/get/borrow read inside the transaction after %s: model=%q runtime=%q", after, want[i], g))
					f.Ctx = "after=" + after
					f.Src = srcClass
					return f
				}
				c := cur[owner[i]]
				f := fail("result", c.Op, fmt.Sprintf("call %d (%s %s/%s %s): model=%q runtime=%q", owner[i], c.Op, c.A, c.N, c.S, want[i], g))
				f.Src = c.S
				if c.Op == "tryUpdate" {
					f.Ctx = "tryUpdate-" + c.K
				}
				return f
			}
		}
		if len(got) != len(want) {
			return fail("result", s.Op, fmt.Sprintf("logged results: model=%q runtime=%q", want, got))
		}
		if !wantErr {
			var evs []string
			for _, e := range r.Events {
				if strings.HasPrefix(e.Type, "flow.") {
					evs = append(evs, e.String())
				}
			}
			wantEv := expectedEvents(cur)
			if strings.Join(evs, "\n") != strings.Join(wantEv, "\n") {
				return fail("events", s.Op, fmt.Sprintf("emitted events: model=%q runtime=%q", wantEv, evs))
			}
		}
		// observation by a later script
		if s.Com == nil {
			f := fail("nocom", s.Op, "behaviour step ending a transaction carries no predicted committed view")
			f.Harness = true
			return f
		}
		lastCom = s.Com
		pr := w.Script(projSrc, useVM)
		if pr.Err != nil {
			if host.IsInternal(pr.Class) {
				f := fail("internal", "observe", "observation script: "+pr.Class+": "+pr.Err.Error())
				f.Ctx = txCtx()
				return f
			}
			return fail("observation-failed", "observe", "observation script failed: "+pr.Err.Error())
		}
		arr := pr.Value.(cadence.Array)
		k := 0
		str := func() string { v := string(arr.Values[k].(cadence.String)); k++; return v }
		for _, a := range acctNames {
			var names []string
			for _, n := range ctrNames {
				if entry(s.Com, a, n).Src != "none" {
					names = append(names, n)
				}
			}
			wantNames := ""
			for _, n := range names {
				wantNames += n + ","
			}
			if g := normNames(str()); g != wantNames {
				f := fail("state-names", "observe", fmt.Sprintf("contracts.names of %s read by a later script: model=%q runtime=%q", a, wantNames, g))
				f.Ctx = txCtx()
				return f
			}
			for _, n := range ctrNames {
				e := entry(s.Com, a, n)
				wantGet := "nil"
				if os.Getenv("VERIF_SELFTEST_CORRUPT") == "1" && e.Src == "v2" { // negative control: corrupt the predicted committed code
					e.Src = "v1"
				}
				if e.Src != "none" {
					wantGet = n + "|" + addrs[a].HexWithPrefix() + "|" + code(e.Src, n)
				}
				gGet, gBorrow := str(), str()
				if gGet != wantGet {
					f := fail("state-code", "observe", fmt.Sprintf("contracts.get(%s/%s) read by a later script: model=%q runtime=%q", a, n, wantGet, gGet))
					f.Ctx = txCtx()
					return f
				}
				if gBorrow != fmt.Sprint(e.Borrow) {
					f := fail("state-borrow", "observe", fmt.Sprintf("contracts.borrow(%s/%s) in a later script: model=%v runtime=%s", a, n, e.Borrow, gBorrow))
					f.Ctx = txCtx()
					return f
				}
			}
		}
		if si != lastEnd {
			continue
		}
		// final state: import every (account, name) in a script of its own
		for _, a := range acctNames {
			for _, n := range ctrNames {
				e := entry(lastCom, a, n)
				body := "let v: AnyStruct = " + n + ".x; if let i = v as? Int { return i.toString() }; if let b = v as? Bool { return b ? \"true\" : \"false\" }; return \"?\""
				if e.Src == "iface" {
					body = "return \"iface\""
				}
				isrc := fmt.Sprintf("import %s from %s\naccess(all) fun main(): String { %s }\n", n, addrs[a].HexWithPrefix(), body)
				ir := w.Script(isrc, useVM)
				if host.IsInternal(ir.Class) {
					f := fail("internal", "import", "import script: "+ir.Class+": "+ir.Err.Error())
					f.Source = isrc
					return f
				}
				if e.Src == "none" {
					if ir.Err == nil {
						f := fail("state-import", "import", fmt.Sprintf("%s/%s is not deployed in the model but a later script imports it", a, n))
						f.Source = isrc
						return f
					}
					continue
				}
				if ir.Err != nil {
					f := fail("state-import", "import", fmt.Sprintf("%s/%s is deployed (%s) in the model but a later script cannot use it: %v", a, n, e.Src, ir.Err))
					f.Source = isrc
					return f
				}
				if g := string(ir.Value.(cadence.String)); g != instValue(e.Inst) {
					f := fail("state-instance", "import", fmt.Sprintf("contract value of %s/%s: model says the initializer of %s ran (x=%s), runtime x=%s", a, n, e.Inst, instValue(e.Inst), g))
					f.Source = isrc
					return f
				}
			}
		}
	}
	return nil
}

func main() {
	if len(os.Args) < 3 {
		util.Die("usage: contracts behaviours.ndjson results.ndjson [engines]")
	}
	engines := []bool{false, true}
	if len(os.Args) > 3 {
		engines = nil
		for _, e := range strings.Split(os.Args[3], ",") {
			engines = append(engines, e == "vm")
		}
	}
	var behs []*Beh
	err := util.ReadLines(os.Args[1], func(line []byte) error {
		var b Beh
		if err := json.Unmarshal(line, &b); err != nil {
			return err
		}
		behs = append(behs, &b)
		return nil
	})
	if err != nil {
		util.Die("reading behaviours: %v", err)
	}
	out := util.NewOut(os.Args[2])
	defer out.Close()
	var nfail, ntx, ncalls int64
	util.Parallel(len(behs), runtime.NumCPU(), func(i int) {
		b := behs[i]
		for _, vm := range engines {
			if f := replay(b, vm); f != nil {
				atomic.AddInt64(&nfail, 1)
				out.Write(f)
			}
		}
		for _, s := range b.Steps {
			switch s.Op {
			case "begin":
				atomic.AddInt64(&ntx, 1)
			case "commit", "abort", "end":
			default:
				atomic.AddInt64(&ncalls, 1)
			}
		}
	})
	out.Write(map[string]any{"summary": true, "behaviours": len(behs), "engines": len(engines),
		"transactions": ntx, "calls": ncalls, "failures": nfail})
}
