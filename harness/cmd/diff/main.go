// diff: cross-engine differential replay of recorded histories (C34) and internal-error monitor (C01).
//
//	diff <record-dir> <results.ndjson>
//
// Histories recorded by host.World (VERIF_RECORD_DIR) while the other checks' model-generated
// behaviours were replayed are executed again from scratch on the interpreter, the VM and the VM with
// peephole optimisation; after every step everything host-visible is compared: outcome class / error
// type, result value, logs, events, register writes (keys, values, order) and, for transactions,
// the committed ledger contents. Any internal error or crash on any engine is reported for C01.
package main

import (
	"crypto/sha256"
	"encoding/hex"
	"encoding/json"
	"fmt"
	"os"
	"path/filepath"
	"regexp"
	"sort"
	"strings"
	"sync/atomic"

	"github.com/onflow/cadence/common"

	"verifharness/host"
	"verifharness/util"
)

type Diff struct {
	Hist   string   `json:"hist"`
	Step   int      `json:"step"`
	Kind   string   `json:"kind"` // engine-diff | internal
	Field  string   `json:"field"`
	Engine string   `json:"engine"`
	A      string   `json:"a"`
	B      string   `json:"b"`
	Src    string   `json:"src"`
	Prefix []string `json:"prefix,omitempty"`
	Detail string   `json:"detail,omitempty"` // first "error: ..." line of an internal error
}

// errorLine returns the first line of the message that starts with "error: ".
func errorLine(s string) string {
	for _, l := range strings.Split(s, "\n") {
		if strings.HasPrefix(l, "error: ") {
			return trunc(l, 300)
		}
	}
	return ""
}

func trunc(s string, n int) string {
	if len(s) > n {
		return s[:n] + "…"
	}
	return s
}

// script/transaction locations carry the world id; type ids of declarations made in a script
// (s.<64 hex>.Name) therefore differ between the three worlds: normalise them.
var locRe = regexp.MustCompile(`\b([st])\.[0-9a-f]{64}\b`)

func norm(s string) string { return locRe.ReplaceAllString(s, "$1.<loc>") }

func observe(r host.Result) map[string]string {
	o := map[string]string{"class": r.Class}
	if r.Value != nil {
		o["value"] = r.Value.String()
	}
	o["logs"] = strings.Join(r.Logs, "\n")
	var ev []string
	for _, e := range r.Events {
		ev = append(ev, e.String())
	}
	o["events"] = strings.Join(ev, "\n")
	var ws []string
	for _, w := range r.Writes {
		ws = append(ws, fmt.Sprintf("%x|%x=%x", w.Owner, w.Key, w.Value))
	}
	o["writes"] = strings.Join(ws, "\n")
	for k, v := range o {
		o[k] = norm(v)
	}
	return o
}

func ledgerDigest(w *host.World) string {
	keys := make([]string, 0, len(w.Ledger.StoredValues))
	for k := range w.Ledger.StoredValues {
		keys = append(keys, k)
	}
	sort.Strings(keys)
	h := sha256.New()
	for _, k := range keys {
		v := w.Ledger.StoredValues[k]
		if len(v) == 0 {
			continue
		}
		fmt.Fprintf(h, "%x=%x;", k, v)
	}
	return hex.EncodeToString(h.Sum(nil))[:16]
}

func main() {
	if len(os.Args) < 3 {
		util.Die("usage: diff record-dir results.ndjson")
	}
	files, _ := filepath.Glob(filepath.Join(os.Args[1], "hist-*.ndjson"))
	type key struct {
		f string
		w uint64
	}
	hists := map[key][]host.RecordedExec{}
	for _, f := range files {
		err := util.ReadLines(f, func(line []byte) error {
			var e host.RecordedExec
			if err := json.Unmarshal(line, &e); err != nil {
				return err
			}
			k := key{f, e.W}
			hists[k] = append(hists[k], e)
			return nil
		})
		if err != nil {
			util.Die("%v", err)
		}
	}
	// dedupe identical histories, truncate at the first non-replayable execution
	uniq := map[string][]host.RecordedExec{}
	var order []string
	total := 0
	for _, h := range hists {
		sort.Slice(h, func(i, j int) bool { return h[i].I < h[j].I })
		for i, e := range h {
			if e.Skip != "" {
				h = h[:i]
				break
			}
		}
		if len(h) == 0 {
			continue
		}
		total++
		hs := sha256.New()
		for _, e := range h {
			fmt.Fprintf(hs, "%s|%d:%s|%v|%v|%v;", e.Kind, len(e.Src), e.Src, e.Signers, e.Args, e.Full)
		}
		id := hex.EncodeToString(hs.Sum(nil))[:16]
		if _, ok := uniq[id]; !ok {
			uniq[id] = h
			order = append(order, id)
		}
	}
	sort.Strings(order)
	out := util.NewOut(os.Args[2])
	defer out.Close()
	var nsteps, ndiff, ninternal int64
	util.Parallel(len(order), 14, func(i int) {
		id := order[i]
		h := uniq[id]
		worlds := map[string]*host.World{}
		for _, eng := range host.Engines {
			w := host.NewWorld()
			if h[0].Full {
				w.FullHost()
			}
			worlds[eng] = w
		}
		var prefix []string
		for si, e := range h {
			var signers []common.Address
			for _, s := range e.Signers {
				a, err := common.HexToAddress(s)
				if err != nil {
					util.Die("bad signer %s", s)
				}
				signers = append(signers, a)
			}
			var args [][]byte
			for _, a := range e.Args {
				b, _ := hex.DecodeString(a)
				args = append(args, b)
			}
			obs := map[string]map[string]string{}
			for _, eng := range host.Engines {
				w := worlds[eng]
				var r host.Result
				if e.Kind == "script" {
					r = w.ScriptE(e.Src, eng, args...)
				} else {
					r = w.TxE(e.Src, signers, eng, args...)
				}
				o := observe(r)
				if e.Kind == "tx" {
					o["ledger"] = ledgerDigest(w)
				}
				if r.Err != nil {
					o["err"] = trunc(r.Err.Error(), 400)
				}
				obs[eng] = o
				if host.IsInternal(r.Class) {
					atomic.AddInt64(&ninternal, 1)
					out.Write(Diff{Hist: id, Step: si, Kind: "internal", Field: "class", Engine: eng, A: r.Class,
						B: trunc(fmt.Sprint(r.Err), 600), Src: e.Src, Prefix: prefix, Detail: errorLine(fmt.Sprint(r.Err))})
				}
			}
			atomic.AddInt64(&nsteps, 1)
			ref := obs["interp"]
			stop := false
			for _, eng := range []string{"vm", "vmopt"} {
				for _, f := range []string{"class", "value", "logs", "events", "writes", "ledger"} {
					if ref[f] != obs[eng][f] {
						atomic.AddInt64(&ndiff, 1)
						out.Write(Diff{Hist: id, Step: si, Kind: "engine-diff", Field: f, Engine: eng,
							A: trunc(ref[f], 500) + " :: " + ref["err"], B: trunc(obs[eng][f], 500) + " :: " + obs[eng]["err"],
							Src: e.Src, Prefix: prefix})
						stop = true
						break
					}
				}
			}
			if stop {
				break // later steps would only echo the divergence
			}
			prefix = append(prefix, e.Src)
			if len(prefix) > 12 {
				prefix = prefix[len(prefix)-12:]
			}
		}
	})
	out.Write(map[string]any{"summary": true, "recorded_histories": total, "distinct_histories": len(order),
		"steps": nsteps, "diffs": ndiff, "internal": ninternal})
}
