// peep: runs the control-flow shapes of spec/lang/PeepholeShapes.tla on the three engines (C34).
//
//	peep <shapes.json> <results.ndjson>
//
// Every shape is rendered twice -- its body inside a function expression (the code the peephole pass
// optimises) and inside a global function -- and executed on interpreter, VM and VM+peephole. Each
// run must return the value the specification gives; any difference is reported with the engine.
package main

import (
	"encoding/json"
	"errors"
	"fmt"
	"os"
	"strings"

	"github.com/onflow/cadence"
	"github.com/onflow/cadence/runtime"

	"verifharness/host"
	"verifharness/util"
)

type Shape struct {
	Ctl string          `json:"ctl"`
	A   string          `json:"a"`
	B   string          `json:"b"`
	C   bool            `json:"c"`
	D   bool            `json:"d"`
	Val json.RawMessage `json:"val"`
}

type Fail struct {
	Shape  Shape  `json:"shape"`
	Form   string `json:"form"`
	Engine string `json:"engine"`
	Want   string `json:"want"`
	Got    string `json:"got"`
	Class  string `json:"class"`
	Err    string `json:"err"`
	Src    string `json:"src"`
}

func leaf(l string) string {
	switch l {
	case "field":
		return "s.f"
	case "field2":
		return "s.g"
	case "const":
		return "5"
	case "nilv":
		return "nil"
	case "call":
		return "g(3)"
	case "arith":
		return "(x + 1)"
	case "index":
		return "xs[1]"
	case "local":
		return "x"
	}
	panic(l)
}

// optional-typed rendering of a leaf (so nil and Int leaves share the type Int?)
func oleaf(l string) string { return "(" + leaf(l) + " as Int?)" }

func body(sh Shape) string {
	a, b := oleaf(sh.A), oleaf(sh.B)
	c := fmt.Sprint(sh.C)
	d := fmt.Sprint(sh.D)
	env := "let s = S(); var x = 1; let xs = [30, 31]; let c = cnd(" + c + "); let d = cnd(" + d + ")\n    "
	switch sh.Ctl {
	case "cond":
		return env + "return c ? " + a + " : " + b
	case "ifelse":
		return env + "if c { return " + a + " } else { return " + b + " }"
	case "ifonly":
		return env + "if c { return " + a + " }\n    return " + b
	case "coalesce":
		return env + "return (c ? (nil as Int?) : " + a + ") ?? " + b
	case "while0":
		return env + "var r: Int? = " + b + "; var i = 0; while i < 0 { r = " + a + "; i = i + 1 }\n    return r"
	case "while2":
		return env + "var r: Int? = " + b + "; var i = 0; while i < 2 { if c { r = " + a + " }; i = i + 1 }\n    return r"
	case "switch":
		return env + "let k = c ? 1 : 2\n    switch k { case 1: return " + a + "\n    default: return " + b + " }"
	case "nestcond":
		return env + "return c ? (d ? " + a + " : " + b + ") : (5 as Int?)"
	case "optchain":
		return env + "let o: S? = c ? s : nil\n    return o?.f ?? " + b
	case "andor":
		return env + "return ((c && d) || !c) ? " + a + " : " + b
	case "forin":
		return env + "var r: Int? = " + b + "; for e in [c] { if e { r = " + a + " } }\n    return r"
	case "ifletelse":
		return env + "if let v = (c ? " + a + " : (nil as Int?)) { return v } else { return " + b + " }"
	}
	panic(sh.Ctl)
}

const prelude = `access(all) struct S { access(all) let f: Int; access(all) let g: Int; init() { self.f = 7; self.g = 8 } }
access(all) fun g(_ n: Int): Int { return n + 1 }
access(all) fun cnd(_ b: Bool): Bool { return b }
`

func render(sh Shape, form string) string {
	b := body(sh)
	if form == "closure" {
		return prelude + "access(all) fun main(): Int? {\n  let f = fun (): Int? {\n    " + b + "\n  }\n  return f()\n}\n"
	}
	return prelude + "access(all) fun run(): Int? {\n    " + b + "\n}\naccess(all) fun main(): Int? { return run() }\n"
}

func show(v cadence.Value) string {
	if v == nil {
		return "<none>"
	}
	if o, ok := v.(cadence.Optional); ok {
		if o.Value == nil {
			return "nil"
		}
		return show(o.Value)
	}
	return v.String()
}

func main() {
	if len(os.Args) < 3 {
		util.Die("usage: peep shapes.json results.ndjson")
	}
	var in struct {
		Shapes []Shape `json:"shapes"`
	}
	data, err := os.ReadFile(os.Args[1])
	if err != nil {
		util.Die("%v", err)
	}
	if err := json.Unmarshal(data, &in); err != nil {
		util.Die("%v", err)
	}
	out := util.NewOut(os.Args[2])
	defer out.Close()
	nruns := 0
	util.Parallel(len(in.Shapes), 12, func(i int) {
		sh := in.Shapes[i]
		want := strings.Trim(string(sh.Val), `"`)
		if want == "99" {
			want = "nil"
		}
		for _, form := range []string{"closure", "function"} {
			src := render(sh, form)
			for _, eng := range host.Engines {
				w := host.NewWorld()
				r := w.ScriptE(src, eng)
				got := show(r.Value)
				if r.Err != nil {
					got = "error"
				}
				var pce *runtime.ParsingCheckingError
				if errors.As(r.Err, &pce) {
					util.Die("rendered shape rejected by the checker: %v\n%s\n%v", sh, src, r.Err)
				}
				if got != want {
					es := ""
					if r.Err != nil {
						es = r.Err.Error()
						if len(es) > 400 {
							es = es[:400]
						}
					}
					out.Write(Fail{Shape: sh, Form: form, Engine: eng, Want: want, Got: got, Class: r.Class, Err: es, Src: src})
				}
			}
		}
	})
	nruns = len(in.Shapes) * 2 * len(host.Engines)
	out.Write(map[string]any{"summary": true, "shapes": len(in.Shapes), "runs": nruns})
}
