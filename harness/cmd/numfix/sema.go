package main

import (
	"encoding/json"
	"math/big"
	"os"
	"sort"

	"github.com/onflow/cadence/sema"

	"verifharness/util"
)

// what sema declares about the concrete numeric types (compared with the spec's type table by the check)
type semaType struct {
	Name       string   `json:"name"`
	Min        *Z       `json:"min"`
	Max        *Z       `json:"max"`
	Scale      int      `json:"scale"`
	Signed     bool     `json:"signed"`
	Integer    bool     `json:"integer"`
	ConvParams []string `json:"conv_params"` // parameter labels/identifiers of the conversion function T(...)
	MulDiv     []string `json:"muldiv_params"`
}

func semaTypes() (map[string]semaType, []string) {
	res := map[string]semaType{}
	signed := map[string]bool{}
	for _, t := range sema.AllSignedIntegerTypes {
		signed[t.QualifiedString()] = true
	}
	for _, t := range sema.AllSignedFixedPointTypes {
		signed[t.QualifiedString()] = true
	}
	for _, ty := range sema.AllNumberTypes {
		name := ty.QualifiedString()
		v := sema.BaseValueActivation.Find(name)
		if v == nil {
			continue // abstract numeric types have no conversion function
		}
		ft, ok := v.Type.(*sema.FunctionType)
		if !ok {
			continue
		}
		st := semaType{Name: name, Signed: signed[name], ConvParams: []string{}, MulDiv: []string{}}
		for _, p := range ft.Parameters {
			st.ConvParams = append(st.ConvParams, p.Identifier)
		}
		if rt, ok := ty.(sema.IntegerRangedType); ok {
			if rt.MinInt() != nil {
				z := toZ(rt.MinInt())
				st.Min = &z
			}
			if rt.MaxInt() != nil {
				z := toZ(rt.MaxInt())
				st.Max = &z
			}
			st.Integer = true
		}
		if frt, ok := ty.(sema.FractionalRangedType); ok {
			st.Integer = false
			st.Scale = int(frt.Scale())
			f := pow10(st.Scale)
			if frt.MinInt() != nil {
				x := new(big.Int).Mul(frt.MinInt(), f)
				if frt.MinInt().Sign() < 0 {
					x.Sub(x, frt.MinFractional())
				} else {
					x.Add(x, frt.MinFractional())
				}
				z := toZ(x)
				st.Min = &z
			}
			if frt.MaxInt() != nil {
				x := new(big.Int).Mul(frt.MaxInt(), f)
				x.Add(x, frt.MaxFractional())
				z := toZ(x)
				st.Max = &z
			}
			if m, ok := ty.GetMembers()[sema.FixedPointNumericTypeMultiplyDivideFunctionName]; ok {
				mem := m.Resolve(nil, sema.FixedPointNumericTypeMultiplyDivideFunctionName, nil, func(error) {})
				if mft, ok := mem.TypeAnnotation.Type.(*sema.FunctionType); ok {
					for _, p := range mft.Parameters {
						st.MulDiv = append(st.MulDiv, p.Identifier)
					}
				}
			}
		}
		res[name] = st
	}
	var rules []string
	for _, r := range sema.RoundingRules {
		rules = append(rules, r.Name())
	}
	return res, rules
}

func cmdSema(out string) {
	st, rules := semaTypes()
	var names []string
	for n := range st {
		names = append(names, n)
	}
	sort.Strings(names)
	var list []semaType
	for _, n := range names {
		list = append(list, st[n])
	}
	b, _ := json.Marshal(map[string]any{"types": list, "rounding_rules": rules})
	if err := os.WriteFile(out, b, 0o644); err != nil {
		util.Die("%v", err)
	}
}
