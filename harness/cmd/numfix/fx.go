package main

// C15: fixed-point arithmetic.
//
//	numfix fx <operands.ndjson> <out.ndjson> <pairsPerType> <triplesPerType>
//	        impl -> spec: + - * / % and multiplyDivide (no rule + every rounding rule) of the four fixed-point types on
//	        spec-defined boundary operands (spec/num/FixedPointOperands.tla) plus seeded random operands, executed
//	        through the interpreter's value methods and through scripts on interpreter and VM; one event per distinct
//	        observation, judged by spec/num/FixedPointJudge.tla.
//	numfix fxone <type> <op> <rule|-> <a> <b> <c> <out.ndjson>      replay of one case (scaled decimal operands)

import (
	"encoding/json"
	"math/big"
	"math/rand"
	"runtime"
	"sort"

	fix "github.com/onflow/fixed-point"

	"github.com/onflow/cadence/interpreter"
	"github.com/onflow/cadence/sema"

	"verifharness/util"
)

type FxOperands struct {
	T       string `json:"t"`
	Vals    []Z    `json:"vals"`
	Core    []Z    `json:"core"`
	Pairs   [][]Z  `json:"pairs"`
	Triples [][]Z  `json:"triples"`
}

type FxEvent struct {
	K    int      `json:"k"`
	T    string   `json:"t"`
	Op   string   `json:"op"`
	Rule string   `json:"rule"`
	A    Z        `json:"a"`
	B    Z        `json:"b"`
	C    Z        `json:"c"`
	Out  string   `json:"out"`
	R    Z        `json:"r"`
	W    Z        `json:"w"`
	W2   Z        `json:"w2"`
	Via  []string `json:"via"`
	Expr string   `json:"expr"`
}

var ruleByName = map[string]sema.RoundingRule{}

func init() {
	for _, r := range sema.RoundingRules {
		ruleByName[r.Name()] = r
	}
}

// roundDiv: N/D rounded to an integer by the rule. It only produces WITNESSES: the specification accepts a
// witness only if it satisfies the (uniquely solvable) rounding relation, so a mistake here is a harness error.
func roundDiv(n, d *big.Int, rule string) *big.Int {
	if d.Sign() == 0 {
		return new(big.Int)
	}
	q, r := new(big.Int).QuoRem(n, d, new(big.Int)) // truncated
	if r.Sign() == 0 {
		return q
	}
	neg := (n.Sign() < 0) != (d.Sign() < 0)
	awayStep := big.NewInt(1)
	if neg {
		awayStep = big.NewInt(-1)
	}
	r2 := new(big.Int).Abs(r)
	r2.Lsh(r2, 1)
	cmp := r2.Cmp(new(big.Int).Abs(d)) // 2|r| ? |d|
	switch rule {
	case "", "towardZero":
		return q
	case "awayFromZero":
		return q.Add(q, awayStep)
	case "nearestHalfAway":
		if cmp >= 0 {
			return q.Add(q, awayStep)
		}
		return q
	case "nearestHalfEven":
		if cmp > 0 || (cmp == 0 && q.Bit(0) == 1) {
			return q.Add(q, awayStep)
		}
		return q
	}
	util.Die("unknown rounding rule %q", rule)
	return nil
}

func fxWitness(t NT, op, rule string, a, b, c *big.Int) (w, w2 *big.Int) {
	f := pow10(t.Scale)
	w, w2 = new(big.Int), new(big.Int)
	switch op {
	case "add":
		w.Add(a, b)
	case "sub":
		w.Sub(a, b)
	case "mul":
		w = roundDiv(new(big.Int).Mul(a, b), f, "")
	case "div":
		w = roundDiv(new(big.Int).Mul(a, f), b, "")
	case "mod":
		if b.Sign() != 0 {
			w.Quo(a, b)
			w2 = roundDiv(new(big.Int).Mul(a, f), b, "")
		}
	case "muldiv":
		w = roundDiv(new(big.Int).Mul(a, b), c, rule)
		w2 = roundDiv(new(big.Int).Mul(a, b), c, "")
	}
	return
}

func fxDirect(inter *interpreter.Interpreter, t NT, op, rule string, a, b, c *big.Int) (o Obs) {
	defer func() {
		if r := recover(); r != nil {
			o = Obs{Out: classifyPanic(r), R: new(big.Int)}
		}
	}()
	av := t.mk(a).(interpreter.NumberValue)
	bv := t.mk(b).(interpreter.NumberValue)
	var res interpreter.Value
	switch op {
	case "add":
		res = av.Plus(inter, bv)
	case "sub":
		res = av.Minus(inter, bv)
	case "mul":
		res = av.Mul(inter, bv)
	case "div":
		res = av.Div(inter, bv)
	case "mod":
		res = av.Mod(inter, bv)
	case "muldiv":
		mode := fix.RoundTruncate
		if rule != "" {
			mode = fix.RoundingMode(ruleByName[rule].RawValue())
		}
		res = av.(interpreter.FixedPointValue).MultiplyDivide(inter, bv.(interpreter.FixedPointValue), t.mk(c).(interpreter.FixedPointValue), mode)
	default:
		util.Die("fxDirect: unknown op %s", op)
	}
	return Obs{"ok", toBig(res)}
}

var fxSym = map[string]string{"add": "+", "sub": "-", "mul": "*", "div": "/", "mod": "%"}

func fxExpr(t NT, op, rule string, a, b, c *big.Int) string {
	if op == "muldiv" {
		s := lit(t, a) + ".multiplyDivide(" + lit(t, b) + ", " + lit(t, c)
		if rule != "" {
			s += ", rounding: RoundingRule." + rule
		}
		return s + ")"
	}
	return lit(t, a) + " " + fxSym[op] + " " + lit(t, b)
}

type fxCase struct {
	op, rule string
	a, b, c  *big.Int
}

func (c fxCase) key() string {
	return c.op + "|" + c.rule + "|" + c.a.String() + "|" + c.b.String() + "|" + c.c.String()
}

// observe the cases of one unit three ways and fold identical observations into one event
func fxRun(wk *worker, t NT, cases []fxCase) []FxEvent {
	n := len(cases)
	d := make([]Obs, n)
	exprs := make([]string, n)
	pred := make([]bool, n)
	ts := make([]NT, n)
	for i, c := range cases {
		d[i] = fxDirect(wk.inter, t, c.op, c.rule, c.a, c.b, c.c)
		exprs[i] = fxExpr(t, c.op, c.rule, c.a, c.b, c.c)
		pred[i] = d[i].Out == "ok"
		ts[i] = t
	}
	si := wk.runCases(ts, exprs, pred, false)
	sv := wk.runCases(ts, exprs, pred, true)
	var evs []FxEvent
	for i, c := range cases {
		w, w2 := fxWitness(t, c.op, c.rule, c.a, c.b, c.c)
		all := []struct {
			o   Obs
			via string
		}{{d[i], "direct"}, {si[i], "script-interpreter"}, {sv[i], "script-vm"}}
		seen := map[string]int{}
		for _, o := range all {
			if j, ok := seen[o.o.key()]; ok {
				evs[j].Via = append(evs[j].Via, o.via)
				continue
			}
			seen[o.o.key()] = len(evs)
			evs = append(evs, FxEvent{T: t.Name, Op: c.op, Rule: c.rule, A: toZ(c.a), B: toZ(c.b), C: toZ(c.c), Out: o.o.Out, R: toZ(o.o.R),
				W: toZ(w), W2: toZ(w2), Via: []string{o.via}, Expr: exprs[i]})
		}
	}
	return evs
}

func cmdFx(opsPath, outPath string, pairsPerType, triplesPerType int) {
	var ops []FxOperands
	err := util.ReadLines(opsPath, func(line []byte) error {
		var o FxOperands
		if err := json.Unmarshal(line, &o); err != nil {
			return err
		}
		ops = append(ops, o)
		return nil
	})
	if err != nil {
		util.Die("reading operands: %v", err)
	}
	sort.Slice(ops, func(i, j int) bool { return ops[i].T < ops[j].T })
	_, rules := semaTypes()
	seed := util.Seed()
	type unit struct {
		t     NT
		cases []fxCase
	}
	var units []unit
	for ti, o := range ops {
		t := typeByName(o.T)
		rng := rand.New(rand.NewSource(seed*1000003 + int64(ti)*7919 + 15))
		vals := zsToBig(o.Vals)
		core := zsToBig(o.Core)
		type pr struct{ a, b *big.Int }
		var spec, cross, pairs []pr
		for _, p := range o.Pairs {
			spec = append(spec, pr{fromZ(p[0]), fromZ(p[1])})
		}
		sort.Slice(spec, func(i, j int) bool {
			if c := spec[i].a.Cmp(spec[j].a); c != 0 {
				return c < 0
			}
			return spec[i].b.Cmp(spec[j].b) < 0
		})
		for _, a := range core {
			for _, b := range core {
				cross = append(cross, pr{a, b})
			}
		}
		rng.Shuffle(len(spec), func(i, j int) { spec[i], spec[j] = spec[j], spec[i] })
		rng.Shuffle(len(cross), func(i, j int) { cross[i], cross[j] = cross[j], cross[i] })
		take := func(src []pr, n int) {
			if n > len(src) {
				n = len(src)
			}
			pairs = append(pairs, src[:n]...)
		}
		take(spec, pairsPerType*45/100)
		take(cross, pairsPerType*30/100)
		pick := func() *big.Int {
			if rng.Intn(2) == 0 {
				return vals[rng.Intn(len(vals))]
			}
			return randVal(rng, t)
		}
		for len(pairs) < pairsPerType {
			pairs = append(pairs, pr{pick(), pick()})
		}
		var cases []fxCase
		for _, op := range []string{"add", "sub", "mul", "div", "mod"} {
			for _, p := range pairs {
				cases = append(cases, fxCase{op, "", p.a, p.b, zero})
			}
		}
		// multiplyDivide: spec triples, then random ones; every triple without a rule and with every rule
		type tr struct{ a, b, c *big.Int }
		var triples []tr
		for _, p := range o.Triples {
			triples = append(triples, tr{fromZ(p[0]), fromZ(p[1]), fromZ(p[2])})
		}
		sort.Slice(triples, func(i, j int) bool {
			x, y := triples[i], triples[j]
			if c := x.a.Cmp(y.a); c != 0 {
				return c < 0
			}
			if c := x.b.Cmp(y.b); c != 0 {
				return c < 0
			}
			return x.c.Cmp(y.c) < 0
		})
		rng.Shuffle(len(triples), func(i, j int) { triples[i], triples[j] = triples[j], triples[i] })
		if len(triples) > triplesPerType*6/10 {
			triples = triples[:triplesPerType*6/10]
		}
		for len(triples) < triplesPerType {
			a, b := pick(), pick()
			var c *big.Int
			switch rng.Intn(4) {
			case 0: // divisor close to one factor: result close to the other
				c = new(big.Int).Add(b, big.NewInt(int64(rng.Intn(5)-2)))
				if !t.inRange(c) {
					c = b
				}
			case 1: // small divisors: ties and thirds
				c = big.NewInt(int64(1 + rng.Intn(8)))
			default:
				c = pick()
			}
			triples = append(triples, tr{a, b, c})
		}
		for _, p := range triples {
			cases = append(cases, fxCase{"muldiv", "", p.a, p.b, p.c})
			for _, r := range rules {
				cases = append(cases, fxCase{"muldiv", r, p.a, p.b, p.c})
			}
		}
		seen := map[string]bool{}
		uniq := cases[:0]
		for _, c := range cases {
			if !seen[c.key()] {
				seen[c.key()] = true
				uniq = append(uniq, c)
			}
		}
		cases = uniq
		for s := 0; s < len(cases); s += 1500 {
			e := s + 1500
			if e > len(cases) {
				e = len(cases)
			}
			units = append(units, unit{t, cases[s:e]})
		}
	}
	results := make([][]FxEvent, len(units))
	scriptsPer := make([]int, len(units))
	util.Parallel(len(units), runtime.NumCPU(), func(ui int) {
		wk := newWorker()
		results[ui] = fxRun(wk, units[ui].t, units[ui].cases)
		scriptsPer[ui] = wk.scripts
	})
	out := util.NewOut(outPath)
	defer out.Close()
	k, scripts, cases := 0, 0, 0
	per := map[string]int{}
	for ui, evs := range results {
		for _, ev := range evs {
			k++
			ev.K = k
			out.Write(ev)
			key := ev.T + "." + ev.Op
			if ev.Rule != "" {
				key += "." + ev.Rule
			}
			per[key]++
		}
		scripts += scriptsPer[ui]
		cases += len(units[ui].cases)
	}
	out.Write(map[string]any{"summary": true, "events": k, "cases": cases, "observations": 3 * cases, "scripts": scripts, "per_type_op": per})
}

func cmdFxOne(tn, op, rule, as, bs, cs, outPath string) {
	t := typeByName(tn)
	if rule == "-" {
		rule = ""
	}
	a, ok1 := new(big.Int).SetString(as, 10)
	b, ok2 := new(big.Int).SetString(bs, 10)
	c, ok3 := new(big.Int).SetString(cs, 10)
	if !ok1 || !ok2 || !ok3 {
		util.Die("bad operands")
	}
	evs := fxRun(newWorker(), t, []fxCase{{op, rule, a, b, c}})
	out := util.NewOut(outPath)
	defer out.Close()
	for i, ev := range evs {
		ev.K = i + 1
		out.Write(ev)
	}
}
