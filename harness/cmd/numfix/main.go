package main

import (
	"fmt"
	"os"
	"strconv"

	"verifharness/host"
	"verifharness/util"
)

// numfix script <file.cdc>: run a script on both engines and print the outcome (exploration / replay aid)
func cmdScript(path string) {
	src, err := os.ReadFile(path)
	if err != nil {
		util.Die("%v", err)
	}
	w := host.NewWorld()
	for _, eng := range engines {
		r := w.Script(string(src), eng.vm)
		if r.Err != nil {
			fmt.Printf("%s: %s  %s\n", eng.via, r.Class, firstLine(r.Err.Error()))
		} else {
			fmt.Printf("%s: ok %v\n", eng.via, r.Value)
		}
	}
}

func atoi(s string) int {
	n, err := strconv.Atoi(s)
	if err != nil {
		util.Die("bad number %q", s)
	}
	return n
}

func main() {
	if len(os.Args) < 2 {
		util.Die("usage: numfix sema|fx|cv|rangetable|rangetrace|script ...")
	}
	switch os.Args[1] {
	case "sema":
		cmdSema(os.Args[2])
	case "fx":
		cmdFx(os.Args[2], os.Args[3], atoi(os.Args[4]), atoi(os.Args[5]))
	case "fxone":
		cmdFxOne(os.Args[2], os.Args[3], os.Args[4], os.Args[5], os.Args[6], os.Args[7], os.Args[8])
	case "cv":
		cmdCv(os.Args[2], os.Args[3], atoi(os.Args[4]))
	case "cvone":
		cmdCvOne(os.Args[2], os.Args[3], os.Args[4], os.Args[5], os.Args[6])
	case "rangetable":
		cmdRangeTable(os.Args[2], os.Args[3])
	case "rangetrace":
		cmdRangeTrace(os.Args[2], os.Args[3], atoi(os.Args[4]))
	case "rangeone":
		cmdRangeOne(os.Args[2], os.Args[3], os.Args[4], os.Args[5], os.Args[6], os.Args[7])
	case "fmdprobe":
		cmdFmdProbe(atoi(os.Args[2]))
	case "script":
		cmdScript(os.Args[2])
	default:
		util.Die("unknown sub-command %s", os.Args[1])
	}
}
