package main

// C16: numeric conversions.
//
//	numfix cv <sources.ndjson> <out.ndjson> <randomPerPair>
//	        impl -> spec: for every (source type, target type) pair the spec-defined sources (spec/num/ConvertSources.tla)
//	        plus seeded random ones are converted with the conversion function of the target type in scripts on the
//	        interpreter and on the VM - without a rounding argument, and with every rounding rule where sema declares
//	        a `rounding` parameter; one event per distinct observation, judged by spec/num/ConvertJudge.tla.
//	numfix cvone <source type> <target type> <rule|-> <a> <out.ndjson>      replay of one case (scaled decimal source)

import (
	"encoding/json"
	"math/big"
	"math/rand"
	"runtime"
	"sort"

	"verifharness/util"
)

type CvSources struct {
	S   string         `json:"s"`
	Per map[string][]Z `json:"per"`
}

type CvEvent struct {
	K    int      `json:"k"`
	S    string   `json:"s"`
	U    string   `json:"u"`
	Rule string   `json:"rule"`
	A    Z        `json:"a"`
	Out  string   `json:"out"`
	R    Z        `json:"r"`
	W    Z        `json:"w"`
	Via  []string `json:"via"`
	Expr string   `json:"expr"`
}

type cvCase struct {
	s, u NT
	rule string
	a    *big.Int
}

func cvExpr(c cvCase) string {
	e := c.u.Name + "(" + lit(c.s, c.a)
	if c.rule != "" {
		e += ", rounding: RoundingRule." + c.rule
	}
	return e + ")"
}

func cvWitness(c cvCase) *big.Int {
	return roundDiv(new(big.Int).Mul(c.a, pow10(c.u.Scale)), pow10(c.s.Scale), c.rule)
}

func cvRun(wk *worker, cases []cvCase) []CvEvent {
	n := len(cases)
	exprs := make([]string, n)
	pred := make([]bool, n)
	ts := make([]NT, n)
	ws := make([]*big.Int, n)
	for i, c := range cases {
		exprs[i] = cvExpr(c)
		ws[i] = cvWitness(c)
		pred[i] = c.u.Word || c.u.inRange(ws[i]) // only steers batching
		ts[i] = c.u
	}
	var obs [][]Obs
	for _, eng := range engines {
		obs = append(obs, wk.runCases(ts, exprs, pred, eng.vm))
	}
	var evs []CvEvent
	for i, c := range cases {
		seen := map[string]int{}
		for ei, eng := range engines {
			o := obs[ei][i]
			if j, ok := seen[o.key()]; ok {
				evs[j].Via = append(evs[j].Via, eng.via)
				continue
			}
			seen[o.key()] = len(evs)
			evs = append(evs, CvEvent{S: c.s.Name, U: c.u.Name, Rule: c.rule, A: toZ(c.a), Out: o.Out, R: toZ(o.R), W: toZ(ws[i]),
				Via: []string{eng.via}, Expr: exprs[i]})
		}
	}
	return evs
}

func cmdCv(srcPath, outPath string, randomPerPair int) {
	var srcs []CvSources
	err := util.ReadLines(srcPath, func(line []byte) error {
		var o CvSources
		if err := json.Unmarshal(line, &o); err != nil {
			return err
		}
		srcs = append(srcs, o)
		return nil
	})
	if err != nil {
		util.Die("reading sources: %v", err)
	}
	sort.Slice(srcs, func(i, j int) bool { return srcs[i].S < srcs[j].S })
	st, rules := semaTypes()
	seed := util.Seed()
	var units [][]cvCase
	pairs := 0
	for si, so := range srcs {
		s := typeByName(so.S)
		rng := rand.New(rand.NewSource(seed*1000003 + int64(si)*7919 + 16))
		var unames []string
		for u := range so.Per {
			unames = append(unames, u)
		}
		sort.Strings(unames)
		var cases []cvCase
		for _, un := range unames {
			u := typeByName(un)
			pairs++
			vals := zsToBig(so.Per[un])
			seen := map[string]bool{}
			for _, v := range vals {
				seen[v.String()] = true
			}
			// seeded random sources: anywhere in S, and (when U is bounded) near U's range expressed in S's units
			for i := 0; i < randomPerPair; i++ {
				var v *big.Int
				if i%2 == 0 || u.Bits == 0 {
					v = randVal(rng, s)
				} else {
					x := randVal(rng, u)
					v = new(big.Int).Mul(x, pow10(s.Scale))
					v.Quo(v, pow10(u.Scale))
					if s.Scale > 0 {
						v.Add(v, new(big.Int).Rand(rng, pow10(s.Scale)))
					}
					if rng.Intn(2) == 0 && s.Signed {
						v.Neg(v)
					}
					if !s.inRange(v) {
						v = randVal(rng, s)
					}
				}
				if !seen[v.String()] {
					seen[v.String()] = true
					vals = append(vals, v)
				}
			}
			hasRounding := false
			for _, p := range st[un].ConvParams {
				if p == "rounding" {
					hasRounding = true
				}
			}
			for _, v := range vals {
				cases = append(cases, cvCase{s, u, "", v})
				if hasRounding {
					for _, r := range rules {
						cases = append(cases, cvCase{s, u, r, v})
					}
				}
			}
		}
		for b := 0; b < len(cases); b += 1200 {
			e := b + 1200
			if e > len(cases) {
				e = len(cases)
			}
			units = append(units, cases[b:e])
		}
	}
	results := make([][]CvEvent, len(units))
	scriptsPer := make([]int, len(units))
	util.Parallel(len(units), runtime.NumCPU(), func(ui int) {
		wk := newWorker()
		results[ui] = cvRun(wk, units[ui])
		scriptsPer[ui] = wk.scripts
	})
	out := util.NewOut(outPath)
	defer out.Close()
	k, scripts, cases := 0, 0, 0
	perPair := map[string]int{}
	for ui, evs := range results {
		for _, ev := range evs {
			k++
			ev.K = k
			out.Write(ev)
			perPair[ev.S+">"+ev.U]++
		}
		scripts += scriptsPer[ui]
		cases += len(units[ui])
	}
	minPair, maxPair := 1<<30, 0
	for _, n := range perPair {
		if n < minPair {
			minPair = n
		}
		if n > maxPair {
			maxPair = n
		}
	}
	out.Write(map[string]any{"summary": true, "events": k, "cases": cases, "observations": 2 * cases, "scripts": scripts,
		"pairs": pairs, "pairs_with_events": len(perPair), "min_events_per_pair": minPair, "max_events_per_pair": maxPair})
}

func cmdCvOne(sn, un, rule, as, outPath string) {
	if rule == "-" {
		rule = ""
	}
	a, ok := new(big.Int).SetString(as, 10)
	if !ok {
		util.Die("bad source %q", as)
	}
	evs := cvRun(newWorker(), []cvCase{{typeByName(sn), typeByName(un), rule, a}})
	out := util.NewOut(outPath)
	defer out.Close()
	for i, ev := range evs {
		ev.K = i + 1
		out.Write(ev)
	}
}
