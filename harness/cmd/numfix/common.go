// numfix: driver of the fixed-point / conversion / range family (properties C15, C16, C21).
//
// The driver only executes the real code and records what it observed; every verdict is TLC's
// (spec/num/FixedPoint*.tla, Convert*.tla, RangeIter*.tla). Integers cross the boundary as
// {"n":neg,"m":[limbs base 2^15, little endian]} (spec/num/Bignum.tla); a fixed-point value is
// the integer value*10^scale.
package main

import (
	"fmt"
	"math/big"
	"math/rand"
	"reflect"
	"sort"
	"strings"

	"github.com/onflow/cadence"
	"github.com/onflow/cadence/common"
	"github.com/onflow/cadence/interpreter"

	"verifharness/host"
	"verifharness/util"
)

// ---------------------------------------------------------------- integers <-> spec encoding

type Z struct {
	N bool  `json:"n"`
	M []int `json:"m"`
}

var mask15 = big.NewInt(0x7fff)

func toZ(x *big.Int) Z {
	z := Z{N: x.Sign() < 0, M: []int{}}
	t := new(big.Int).Abs(x)
	for t.Sign() != 0 {
		z.M = append(z.M, int(new(big.Int).And(t, mask15).Int64()))
		t.Rsh(t, 15)
	}
	return z
}

func fromZ(z Z) *big.Int {
	x := new(big.Int)
	for i := len(z.M) - 1; i >= 0; i-- {
		x.Lsh(x, 15)
		x.Or(x, big.NewInt(int64(z.M[i])))
	}
	if z.N {
		x.Neg(x)
	}
	return x
}

var zero = big.NewInt(0)
var one = big.NewInt(1)

func pow2(n int) *big.Int  { return new(big.Int).Lsh(one, uint(n)) }
func pow10(n int) *big.Int { return new(big.Int).Exp(big.NewInt(10), big.NewInt(int64(n)), nil) }

func zsToBig(zs []Z) []*big.Int {
	out := make([]*big.Int, len(zs))
	for i, z := range zs {
		out[i] = fromZ(z)
	}
	sort.Slice(out, func(i, j int) bool { return out[i].Cmp(out[j]) < 0 })
	return out
}

// ---------------------------------------------------------------- types

type NT struct {
	Name   string
	Signed bool
	Bits   int // 0 = unbounded
	Word   bool
	Scale  int
}

var allTypes = []NT{
	{"Int8", true, 8, false, 0}, {"Int16", true, 16, false, 0}, {"Int32", true, 32, false, 0}, {"Int64", true, 64, false, 0},
	{"Int128", true, 128, false, 0}, {"Int256", true, 256, false, 0}, {"Int", true, 0, false, 0},
	{"UInt8", false, 8, false, 0}, {"UInt16", false, 16, false, 0}, {"UInt32", false, 32, false, 0}, {"UInt64", false, 64, false, 0},
	{"UInt128", false, 128, false, 0}, {"UInt256", false, 256, false, 0}, {"UInt", false, 0, false, 0},
	{"Word8", false, 8, true, 0}, {"Word16", false, 16, true, 0}, {"Word32", false, 32, true, 0}, {"Word64", false, 64, true, 0},
	{"Word128", false, 128, true, 0}, {"Word256", false, 256, true, 0},
	{"Fix64", true, 64, false, 8}, {"UFix64", false, 64, false, 8}, {"Fix128", true, 128, false, 24}, {"UFix128", false, 128, false, 24},
}

func typeByName(n string) NT {
	for _, t := range allTypes {
		if t.Name == n {
			return t
		}
	}
	util.Die("unknown type %s", n)
	return NT{}
}

// only used to keep generated operands inside the type (the spec re-checks the range on every event)
func (t NT) min() *big.Int {
	if !t.Signed {
		return big.NewInt(0)
	}
	if t.Bits == 0 {
		return nil
	}
	return new(big.Int).Neg(pow2(t.Bits - 1))
}
func (t NT) max() *big.Int {
	if t.Bits == 0 {
		return nil
	}
	if t.Signed {
		return new(big.Int).Sub(pow2(t.Bits-1), one)
	}
	return new(big.Int).Sub(pow2(t.Bits), one)
}
func (t NT) inRange(x *big.Int) bool {
	if mn := t.min(); mn != nil && x.Cmp(mn) < 0 {
		return false
	}
	if mx := t.max(); mx != nil && x.Cmp(mx) > 0 {
		return false
	}
	return true
}

// mk builds the interpreter value of type t for the (scaled) integer x. x must be in range.
func (t NT) mk(x *big.Int) interpreter.Value {
	c := new(big.Int).Set(x)
	switch t.Name {
	case "Int8":
		return interpreter.NewUnmeteredInt8Value(int8(x.Int64()))
	case "Int16":
		return interpreter.NewUnmeteredInt16Value(int16(x.Int64()))
	case "Int32":
		return interpreter.NewUnmeteredInt32Value(int32(x.Int64()))
	case "Int64":
		return interpreter.NewUnmeteredInt64Value(x.Int64())
	case "Int128":
		return interpreter.NewUnmeteredInt128ValueFromBigInt(c)
	case "Int256":
		return interpreter.NewUnmeteredInt256ValueFromBigInt(c)
	case "Int":
		return interpreter.NewUnmeteredIntValueFromBigInt(c)
	case "UInt8":
		return interpreter.NewUnmeteredUInt8Value(uint8(x.Uint64()))
	case "UInt16":
		return interpreter.NewUnmeteredUInt16Value(uint16(x.Uint64()))
	case "UInt32":
		return interpreter.NewUnmeteredUInt32Value(uint32(x.Uint64()))
	case "UInt64":
		return interpreter.NewUnmeteredUInt64Value(x.Uint64())
	case "UInt128":
		return interpreter.NewUnmeteredUInt128ValueFromBigInt(c)
	case "UInt256":
		return interpreter.NewUnmeteredUInt256ValueFromBigInt(c)
	case "UInt":
		return interpreter.NewUnmeteredUIntValueFromBigInt(c)
	case "Word8":
		return interpreter.NewUnmeteredWord8Value(uint8(x.Uint64()))
	case "Word16":
		return interpreter.NewUnmeteredWord16Value(uint16(x.Uint64()))
	case "Word32":
		return interpreter.NewUnmeteredWord32Value(uint32(x.Uint64()))
	case "Word64":
		return interpreter.NewUnmeteredWord64Value(x.Uint64())
	case "Word128":
		return interpreter.NewUnmeteredWord128ValueFromBigInt(c)
	case "Word256":
		return interpreter.NewUnmeteredWord256ValueFromBigInt(c)
	case "Fix64":
		return interpreter.NewUnmeteredFix64Value(x.Int64())
	case "UFix64":
		return interpreter.NewUnmeteredUFix64Value(x.Uint64())
	case "Fix128":
		return interpreter.NewFix128ValueFromBigInt(nil, c)
	case "UFix128":
		return interpreter.NewUFix128ValueFromBigInt(nil, c)
	}
	util.Die("mk: unknown type %s", t.Name)
	return nil
}

// toBig reads the (scaled) integer out of an interpreter value.
func toBig(v interpreter.Value) *big.Int {
	switch v := v.(type) {
	case interpreter.Int8Value:
		return big.NewInt(int64(v))
	case interpreter.Int16Value:
		return big.NewInt(int64(v))
	case interpreter.Int32Value:
		return big.NewInt(int64(v))
	case interpreter.Int64Value:
		return big.NewInt(int64(v))
	case interpreter.UInt8Value:
		return big.NewInt(int64(v))
	case interpreter.UInt16Value:
		return big.NewInt(int64(v))
	case interpreter.UInt32Value:
		return big.NewInt(int64(v))
	case interpreter.UInt64Value:
		return new(big.Int).SetUint64(uint64(v))
	case interpreter.Word8Value:
		return big.NewInt(int64(v))
	case interpreter.Word16Value:
		return big.NewInt(int64(v))
	case interpreter.Word32Value:
		return big.NewInt(int64(v))
	case interpreter.Word64Value:
		return new(big.Int).SetUint64(uint64(v))
	case interpreter.Fix64Value:
		return big.NewInt(int64(v))
	case interpreter.UFix64Value:
		return new(big.Int).SetUint64(uint64(v.UFix64Value))
	case interpreter.Fix128Value:
		return new(big.Int).Set(v.ToBigInt())
	case interpreter.UFix128Value:
		return new(big.Int).Set(v.ToBigInt())
	case interpreter.BigNumberValue:
		return new(big.Int).Set(v.ToBigInt(nil))
	}
	util.Die("toBig: unexpected value %T", v)
	return nil
}

// ---------------------------------------------------------------- observations

// observation of one call
type Obs struct {
	Out string
	R   *big.Int
}

func (o Obs) key() string {
	if o.R == nil {
		return o.Out
	}
	return o.Out + ":" + o.R.String()
}

func classifyPanic(r any) string {
	name := ""
	if e, ok := r.(error); ok {
		t := reflect.TypeOf(e)
		for t.Kind() == reflect.Ptr {
			t = t.Elem()
		}
		name = t.Name()
	} else {
		name = fmt.Sprintf("%T", r)
	}
	return outcomeOfErrorName(name)
}

func outcomeOfErrorName(name string) string {
	switch name {
	case "OverflowError":
		return "overflow"
	case "UnderflowError":
		return "underflow"
	case "DivisionByZeroError":
		return "divzero"
	case "InclusiveRangeConstructionError":
		return "rangector"
	}
	return "other:" + name
}

func outcomeOfClass(class string) string {
	if class == "ok" {
		return "ok"
	}
	if strings.HasPrefix(class, "user:") {
		return outcomeOfErrorName(strings.TrimPrefix(class, "user:"))
	}
	return "other:" + class
}

// str renders the scaled integer x of type t the way Cadence prints the value.
func str(t NT, x *big.Int) string {
	if t.Scale == 0 {
		return x.String()
	}
	s := new(big.Int).Abs(x).String()
	for len(s) <= t.Scale {
		s = "0" + s
	}
	s = s[:len(s)-t.Scale] + "." + s[len(s)-t.Scale:]
	if x.Sign() < 0 {
		s = "-" + s
	}
	return s
}

// lit renders the literal of type t for the scaled integer x.
func lit(t NT, x *big.Int) string {
	return "(" + str(t, x) + " as " + t.Name + ")"
}

// parse the printed form of a cadence number into the scaled integer
func parseCadence(t NT, v cadence.Value) *big.Int {
	return parseNum(t, v.String())
}

func parseNum(t NT, s string) *big.Int {
	if t.Scale > 0 {
		i := strings.IndexByte(s, '.')
		if i < 0 {
			util.Die("fixed-point value without point: %s", s)
		}
		frac := s[i+1:]
		for len(frac) < t.Scale {
			frac += "0"
		}
		if len(frac) != t.Scale {
			util.Die("fixed-point value with unexpected scale: %s", s)
		}
		s = s[:i] + frac
	}
	x, ok := new(big.Int).SetString(s, 10)
	if !ok {
		util.Die("cannot parse script result %q", s)
	}
	return x
}

type worker struct {
	w       *host.World
	inter   *interpreter.Interpreter
	scripts int
}

func newWorker() *worker {
	inter, err := interpreter.NewInterpreter(nil, common.ScriptLocation{}, &interpreter.Config{})
	if err != nil {
		util.Die("NewInterpreter: %v", err)
	}
	return &worker{w: host.NewWorld(), inter: inter}
}

func firstLine(s string) string {
	for _, l := range strings.Split(s, "\n") {
		l = strings.TrimSpace(l)
		if strings.HasPrefix(l, "error:") {
			return l
		}
	}
	if i := strings.IndexByte(s, '\n'); i >= 0 {
		return s[:i]
	}
	return s
}

// runExprs evaluates the expressions through one script (array result); when the script fails it
// bisects, so every expression gets its own observation. ts[i] is the result type of exprs[i].
func (wk *worker) runExprs(ts []NT, exprs []string, vm bool, out []Obs) {
	if len(exprs) == 0 {
		return
	}
	var sb strings.Builder
	sb.WriteString("access(all) fun main(): [AnyStruct] { return [\n")
	for i, e := range exprs {
		if i > 0 {
			sb.WriteString(",\n")
		}
		sb.WriteString(e)
	}
	sb.WriteString("\n] }")
	wk.scripts++
	r := wk.w.Script(sb.String(), vm)
	if r.Err == nil {
		arr, ok := r.Value.(cadence.Array)
		if !ok || len(arr.Values) != len(exprs) {
			util.Die("script returned %v for %d expressions", r.Value, len(exprs))
		}
		for i := range exprs {
			out[i] = Obs{"ok", parseCadence(ts[i], arr.Values[i])}
		}
		return
	}
	if len(exprs) == 1 {
		oc := outcomeOfClass(r.Class)
		if strings.HasPrefix(oc, "other:") {
			oc = oc + " [" + firstLine(r.Err.Error()) + "] in " + exprs[0]
		}
		out[0] = Obs{oc, new(big.Int)}
		return
	}
	h := len(exprs) / 2
	wk.runExprs(ts[:h], exprs[:h], vm, out[:h])
	wk.runExprs(ts[h:], exprs[h:], vm, out[h:])
}

// runCases evaluates cases through scripts on one engine: cases predicted to succeed are batched,
// cases predicted to fail run one per script.
func (wk *worker) runCases(ts []NT, exprs []string, predictOK []bool, vm bool) []Obs {
	out := make([]Obs, len(exprs))
	var okIdx []int
	for i := range exprs {
		if predictOK[i] {
			okIdx = append(okIdx, i)
		}
	}
	const batch = 200
	for s := 0; s < len(okIdx); s += batch {
		e := s + batch
		if e > len(okIdx) {
			e = len(okIdx)
		}
		es := make([]string, e-s)
		tt := make([]NT, e-s)
		for j := s; j < e; j++ {
			es[j-s] = exprs[okIdx[j]]
			tt[j-s] = ts[okIdx[j]]
		}
		obs := make([]Obs, e-s)
		wk.runExprs(tt, es, vm, obs)
		for j := s; j < e; j++ {
			out[okIdx[j]] = obs[j-s]
		}
	}
	for i := range exprs {
		if !predictOK[i] {
			o := make([]Obs, 1)
			wk.runExprs(ts[i:i+1], exprs[i:i+1], vm, o)
			out[i] = o[0]
		}
	}
	return out
}

// random value of the type: uniformly chosen bit length, random bits, random sign
func randVal(rng *rand.Rand, t NT) *big.Int {
	width := t.Bits
	if width == 0 {
		width = 200
	}
	for {
		n := rng.Intn(width + 1)
		x := new(big.Int)
		if n > 0 {
			x.Rand(rng, pow2(n))
		}
		if t.Signed && rng.Intn(2) == 0 {
			x.Neg(x)
		}
		if t.inRange(x) {
			return x
		}
	}
}

var engines = []struct {
	vm  bool
	via string
}{{false, "script-interpreter"}, {true, "script-vm"}}
