package main

// C21: InclusiveRange.
//
//	numfix rangetable <rows.ndjson> <out.ndjson>   spec -> impl: every row printed by TLC from
//	        spec/num/RangeIter.tla (arguments, constructor verdict, denoted sequence, member set) is compared with
//	        the real implementation through scripts on the interpreter and on the VM: the constructor outcome, the
//	        `step` field, the list produced by a for-in loop and `contains(x)` for every value x of the 8-bit type.
//	numfix rangetrace <types.json> <out.ndjson> <casesPerType>
//	        impl -> spec: ranges of the wider types near the type bounds, with dividing and non-dividing steps;
//	        one event per distinct observation, judged by spec/num/RangeIterJudge.tla.

import (
	"encoding/json"
	"fmt"
	"math/big"
	"math/rand"
	"os"
	"runtime"
	"sort"
	"strconv"
	"strings"
	"sync"

	"github.com/onflow/cadence"

	"verifharness/util"
)

const iterCap8 = 300 // a for-in loop over an 8-bit range that yields more elements than this is "runaway"

func prelude(t string, cap int) string {
	return fmt.Sprintf(`
access(all) fun it(_ r: InclusiveRange<%[1]s>): [%[1]s] {
    var out: [%[1]s] = []
    for i in r {
        out.append(i)
        if out.length > %[2]d { break }
    }
    return out
}
access(all) fun cs(_ r: InclusiveRange<%[1]s>, _ xs: [%[1]s]): [Bool] {
    var out: [Bool] = []
    for x in xs { out.append(r.contains(x)) }
    return out
}
`, t, cap)
}

func preludeAll(t string) string {
	return fmt.Sprintf(`
access(all) fun csAll(_ r: InclusiveRange<%[1]s>): [Bool] {
    var out: [Bool] = []
    var x: %[1]s = %[1]s.min
    while true {
        out.append(r.contains(x))
        if x == %[1]s.max { break }
        x = x + 1
    }
    return out
}
access(all) fun row(_ r: InclusiveRange<%[1]s>): [AnyStruct] {
    return [r.step, it(r), csAll(r)]
}
`, t)
}

func ctorExpr(t string, s, e *big.Int, has bool, p *big.Int) string {
	if has {
		return fmt.Sprintf("InclusiveRange<%s>(%s, %s, step: %s)", t, s, e, p)
	}
	return fmt.Sprintf("InclusiveRange<%s>(%s, %s)", t, s, e)
}

// observation of one range on one engine
type rangeObs struct {
	Ctor     string     // ok | rangector | overflow | ...
	Step     *big.Int   // the step field (ctor ok)
	Iter     string     // ok | runaway | overflow | underflow | other:...
	Seq      []*big.Int // elements yielded (ok / runaway)
	Needles  []*big.Int
	Contains []string // per needle: true | false | overflow | underflow | other:... | skipped
}

func bigsOf(v cadence.Value) []*big.Int {
	arr, ok := v.(cadence.Array)
	if !ok {
		util.Die("expected an array, got %v", v)
	}
	out := make([]*big.Int, len(arr.Values))
	for i, x := range arr.Values {
		b, ok := new(big.Int).SetString(x.String(), 10)
		if !ok {
			util.Die("cannot parse integer %q", x.String())
		}
		out[i] = b
	}
	return out
}

func boolsOf(v cadence.Value) []string {
	arr, ok := v.(cadence.Array)
	if !ok {
		util.Die("expected an array, got %v", v)
	}
	out := make([]string, len(arr.Values))
	for i, x := range arr.Values {
		b, ok := x.(cadence.Bool)
		if !ok {
			util.Die("expected Bool, got %v", x)
		}
		if bool(b) {
			out[i] = "true"
		} else {
			out[i] = "false"
		}
	}
	return out
}

func errOutcome(wk *worker, class string, err error, what string) string {
	oc := outcomeOfClass(class)
	if strings.HasPrefix(oc, "other:") {
		oc = oc + " [" + firstLine(err.Error()) + "] in " + what
	}
	return oc
}

func listLit(t string, xs []*big.Int) string {
	var sb strings.Builder
	sb.WriteString("[")
	for i, x := range xs {
		if i > 0 {
			sb.WriteString(", ")
		}
		sb.WriteString(x.String())
	}
	sb.WriteString("]")
	if len(xs) == 0 {
		return "([] as [" + t + "])"
	}
	return sb.String()
}

// containsOn evaluates r.contains(x) for the needles; on failure it bisects so that every needle gets its
// own observation. budget bounds the number of scripts spent on one call tree (the rest is "skipped").
func (wk *worker) containsOn(t, pre, ctor string, needles []*big.Int, vm bool, out []string, budget *int) {
	if len(needles) == 0 {
		return
	}
	if *budget <= 0 {
		for i := range out {
			out[i] = "skipped"
		}
		return
	}
	*budget--
	wk.scripts++
	src := pre + "access(all) fun main(): [Bool] { return cs(" + ctor + ", " + listLit(t, needles) + ") }"
	r := wk.w.Script(src, vm)
	if r.Err == nil {
		bs := boolsOf(r.Value)
		if len(bs) != len(needles) {
			util.Die("contains script returned %d results for %d needles", len(bs), len(needles))
		}
		copy(out, bs)
		return
	}
	if len(needles) == 1 {
		out[0] = errOutcome(wk, r.Class, r.Err, ctor+".contains("+needles[0].String()+")")
		return
	}
	h := len(needles) / 2
	wk.containsOn(t, pre, ctor, needles[:h], vm, out[:h], budget)
	wk.containsOn(t, pre, ctor, needles[h:], vm, out[h:], budget)
}

// observeStaged runs the constructor, the loop and contains separately.
// failHint: needles predicted to fail (run one per script, sampled by the caller), the others go in one script.
func (wk *worker) observeStaged(t string, cap int, ctor string, needles []*big.Int, failHint map[string]bool, vm bool, budget int) rangeObs {
	pre := prelude(t, cap)
	o := rangeObs{Needles: needles}
	wk.scripts++
	r := wk.w.Script("access(all) fun main(): "+t+" { return "+ctor+".step }", vm)
	if r.Err != nil {
		o.Ctor = errOutcome(wk, r.Class, r.Err, ctor)
		return o
	}
	o.Ctor = "ok"
	st, ok := new(big.Int).SetString(r.Value.String(), 10)
	if !ok {
		util.Die("cannot parse step %q", r.Value.String())
	}
	o.Step = st
	wk.scripts++
	r = wk.w.Script(pre+"access(all) fun main(): ["+t+"] { return it("+ctor+") }", vm)
	if r.Err != nil {
		o.Iter = errOutcome(wk, r.Class, r.Err, "for-in over "+ctor)
	} else {
		o.Seq = bigsOf(r.Value)
		o.Iter = "ok"
		if len(o.Seq) > cap {
			o.Iter = "runaway"
		}
	}
	o.Contains = make([]string, len(needles))
	var okN, failN []*big.Int
	var okI, failI []int
	for i, x := range needles {
		if failHint[x.String()] {
			failN = append(failN, x)
			failI = append(failI, i)
		} else {
			okN = append(okN, x)
			okI = append(okI, i)
		}
	}
	res := make([]string, len(okN))
	b := budget
	wk.containsOn(t, pre, ctor, okN, vm, res, &b)
	for j, i := range okI {
		o.Contains[i] = res[j]
	}
	for j, i := range failI {
		one := make([]string, 1)
		b1 := 1
		wk.containsOn(t, pre, ctor, failN[j:j+1], vm, one, &b1)
		o.Contains[i] = one[0]
	}
	return o
}

// ---------------------------------------------------------------- table (8-bit)

type RRow struct {
	ID      int    `json:"id"`
	T       string `json:"t"`
	Lo      int    `json:"lo"`
	Hi      int    `json:"hi"`
	S       int    `json:"s"`
	E       int    `json:"e"`
	H       bool   `json:"h"`
	P       int    `json:"p"`
	OK      bool   `json:"ok"`
	Step    int    `json:"step"`
	Seq     []int  `json:"seq"`
	Mem     []int  `json:"mem"`
	DevIter string `json:"devIter"`
	DevFail []int  `json:"devFail"`
	DevEnd  bool   `json:"devEnd"`
	Ctl     bool   `json:"ctl,omitempty"`
}

type RMismatch struct {
	ID     int    `json:"id"`
	Kind   string `json:"kind"` // ctor | step | iter | contains
	T      string `json:"t"`
	Via    string `json:"via"`
	Ctor   string `json:"ctor"`
	X      int    `json:"x"`
	Expect string `json:"expect"`
	Got    string `json:"got"`
	GotSeq []int  `json:"gotseq,omitempty"`
	Ctl    bool   `json:"ctl,omitempty"`
}

func intsOf(xs []*big.Int, max int) []int {
	n := len(xs)
	if n > max {
		n = max
	}
	out := make([]int, n)
	for i := 0; i < n; i++ {
		out[i] = int(xs[i].Int64())
	}
	return out
}

func sameSeq(a []*big.Int, b []int) bool {
	if len(a) != len(b) {
		return false
	}
	for i := range a {
		if a[i].Cmp(big.NewInt(int64(b[i]))) != 0 {
			return false
		}
	}
	return true
}

func cmdRangeTable(rowsPath, outPath string) {
	var rows []RRow
	err := util.ReadLines(rowsPath, func(line []byte) error {
		var r RRow
		if err := json.Unmarshal(line, &r); err != nil {
			return err
		}
		rows = append(rows, r)
		return nil
	})
	if err != nil {
		util.Die("reading rows: %v", err)
	}
	thorough := util.Tier() == "thorough"
	seed := util.Seed()
	out := util.NewOut(outPath)
	defer out.Close()
	var mu sync.Mutex
	scripts, evalIter, evalContains, skipped, ctorFail, rowsOK := 0, 0, 0, 0, 0, 0

	compare := func(r RRow, via string, o rangeObs) {
		ctor := ctorExpr(r.T, big.NewInt(int64(r.S)), big.NewInt(int64(r.E)), r.H, big.NewInt(int64(r.P)))
		mm := func(kind string, x int, expect, got string, seq []int) {
			out.Write(RMismatch{r.ID, kind, r.T, via, ctor, x, expect, got, seq, r.Ctl})
		}
		expCtor := "ok"
		if !r.OK {
			expCtor = "rangector"
		}
		if o.Ctor != expCtor {
			mm("ctor", 0, expCtor, o.Ctor, nil)
		}
		if o.Ctor != "ok" || !r.OK {
			return
		}
		if o.Step.Cmp(big.NewInt(int64(r.Step))) != 0 {
			mm("step", 0, strconv.Itoa(r.Step), o.Step.String(), nil)
		}
		if o.Iter != "ok" || !sameSeq(o.Seq, r.Seq) {
			mm("iter", 0, fmt.Sprint(r.Seq), o.Iter, intsOf(o.Seq, 400))
		}
		mem := map[int]bool{}
		for _, x := range r.Mem {
			mem[x] = true
		}
		for i, x := range o.Needles {
			xi := int(x.Int64())
			exp := "false"
			if mem[xi] {
				exp = "true"
			}
			if o.Contains[i] == "skipped" {
				continue
			}
			if o.Contains[i] != exp {
				mm("contains", xi, exp, o.Contains[i], nil)
			}
		}
	}

	// group rows by type; rows predicted to behave are batched (one `row(...)` expression each)
	byType := map[string][]int{}
	for i, r := range rows {
		byType[r.T] = append(byType[r.T], i)
	}
	type unit struct {
		t    string
		idx  []int
		calm bool
	}
	var units []unit
	var tnames []string
	for t := range byType {
		tnames = append(tnames, t)
	}
	sort.Strings(tnames)
	for _, t := range tnames {
		var calm, other []int
		for _, i := range byType[t] {
			r := rows[i]
			if r.OK && r.DevIter == "none" && len(r.DevFail) == 0 && !r.Ctl {
				calm = append(calm, i)
			} else {
				other = append(other, i)
			}
		}
		for s := 0; s < len(calm); s += 24 {
			e := s + 24
			if e > len(calm) {
				e = len(calm)
			}
			units = append(units, unit{t, calm[s:e], true})
		}
		for s := 0; s < len(other); s += 8 {
			e := s + 8
			if e > len(other) {
				e = len(other)
			}
			units = append(units, unit{t, other[s:e], false})
		}
	}

	nw := runtime.NumCPU()
	util.Parallel(len(units), nw, func(ui int) {
		u := units[ui]
		wk := newWorker()
		rng := rand.New(rand.NewSource(seed*7919 + int64(ui)))
		lo, hi := rows[u.idx[0]].Lo, rows[u.idx[0]].Hi
		all := make([]*big.Int, 0, hi-lo+1)
		for x := lo; x <= hi; x++ {
			all = append(all, big.NewInt(int64(x)))
		}
		nIter, nCont, nSkip, nCtorFail, nOK := 0, 0, 0, 0, 0
		staged := func(r RRow, vm bool, via string) {
			ctor := ctorExpr(r.T, big.NewInt(int64(r.S)), big.NewInt(int64(r.E)), r.H, big.NewInt(int64(r.P)))
			// needles predicted to fail by a named deviation run one per script: a sample of them (both ends,
			// the middle, random ones): 6 per row in the quick tier, 24 in the thorough tier
			hint := map[string]bool{}
			needles := all
			if len(r.DevFail) > 0 {
				for _, x := range r.DevFail {
					hint[strconv.Itoa(x)] = true
				}
				nKeep := 6
				if thorough {
					nKeep = 24
				}
				if len(r.DevFail) > nKeep {
					keep := map[int]bool{r.DevFail[0]: true, r.DevFail[len(r.DevFail)-1]: true, r.DevFail[len(r.DevFail)/2]: true}
					for len(keep) < nKeep {
						keep[r.DevFail[rng.Intn(len(r.DevFail))]] = true
					}
					needles = nil
					for _, x := range all {
						xi := int(x.Int64())
						if !hint[strconv.Itoa(xi)] || keep[xi] {
							needles = append(needles, x)
						} else {
							nSkip++
						}
					}
				}
			}
			o := wk.observeStaged(r.T, iterCap8, ctor, needles, hint, vm, 600)
			if o.Ctor == "ok" {
				nIter++
				for _, c := range o.Contains {
					if c == "skipped" {
						nSkip++
					} else {
						nCont++
					}
				}
			} else {
				nCtorFail++
			}
			compare(r, via, o)
		}
		for _, eng := range engines {
			if !u.calm {
				for _, i := range u.idx {
					staged(rows[i], eng.vm, eng.via)
				}
				continue
			}
			// one script for the whole unit
			var sb strings.Builder
			sb.WriteString(prelude(u.t, iterCap8))
			sb.WriteString(preludeAll(u.t))
			sb.WriteString("access(all) fun main(): [AnyStruct] { return [\n")
			for j, i := range u.idx {
				r := rows[i]
				if j > 0 {
					sb.WriteString(",\n")
				}
				sb.WriteString("row(" + ctorExpr(r.T, big.NewInt(int64(r.S)), big.NewInt(int64(r.E)), r.H, big.NewInt(int64(r.P))) + ")")
			}
			sb.WriteString("\n] }")
			wk.scripts++
			res := wk.w.Script(sb.String(), eng.vm)
			if res.Err != nil {
				// something in this unit does not behave as predicted: observe every row on its own
				for _, i := range u.idx {
					staged(rows[i], eng.vm, eng.via)
				}
				continue
			}
			arr, ok := res.Value.(cadence.Array)
			if !ok || len(arr.Values) != len(u.idx) {
				util.Die("range unit script returned %v", res.Value)
			}
			for j, i := range u.idx {
				parts, ok := arr.Values[j].(cadence.Array)
				if !ok || len(parts.Values) != 3 {
					util.Die("range row result %v", arr.Values[j])
				}
				st, _ := new(big.Int).SetString(parts.Values[0].String(), 10)
				o := rangeObs{Ctor: "ok", Step: st, Iter: "ok", Seq: bigsOf(parts.Values[1]), Needles: all, Contains: boolsOf(parts.Values[2])}
				if len(o.Seq) > iterCap8 {
					o.Iter = "runaway"
				}
				if len(o.Contains) != len(all) {
					util.Die("csAll returned %d results", len(o.Contains))
				}
				nIter++
				nCont += len(all)
				nOK++
				compare(rows[i], eng.via, o)
			}
		}
		mu.Lock()
		scripts += wk.scripts
		evalIter += nIter
		evalContains += nCont
		skipped += nSkip
		ctorFail += nCtorFail
		rowsOK += nOK
		mu.Unlock()
	})
	out.Write(map[string]any{"summary": true, "rows": len(rows), "engines": 2, "scripts": scripts, "iterations": evalIter,
		"contains_evals": evalContains, "contains_skipped": skipped, "ctor_rejections": ctorFail, "batched_row_evals": rowsOK})
}

// ---------------------------------------------------------------- trace (wide types)

type CObs struct {
	X   Z      `json:"x"`
	Out string `json:"out"` // ok | overflow | ...
	R   bool   `json:"r"`
	Q   Z      `json:"q"` // witness: (x - start) = q*step + m, |m| < |step|, computed by the driver, checked by the spec
	M   Z      `json:"m"`
}

type REvent struct {
	K     int      `json:"k"`
	T     string   `json:"t"`
	Start Z        `json:"start"`
	End   Z        `json:"end"`
	Has   bool     `json:"has"`
	Arg   Z        `json:"arg"`
	Ctor  string   `json:"ctor"`
	Step  Z        `json:"step"`
	N     int      `json:"n"` // witness: number of members claimed by the driver, checked by the spec
	Iter  string   `json:"iter"`
	Seq   []Z      `json:"seq"`
	Cs    []CObs   `json:"cs"`
	Via   []string `json:"via"`
	Expr  string   `json:"expr"`
}

type rcase struct {
	s, e *big.Int
	has  bool
	p    *big.Int
}

func (c rcase) key() string { return fmt.Sprintf("%s|%s|%v|%s", c.s, c.e, c.has, c.p) }

// step and member count as the driver understands them (only to choose needles and to fill the witnesses)
func caseStep(c rcase) *big.Int {
	if c.has {
		return c.p
	}
	if c.s.Cmp(c.e) <= 0 {
		return big.NewInt(1)
	}
	return big.NewInt(-1)
}

func caseCount(c rcase) *big.Int {
	st := caseStep(c)
	if st.Sign() == 0 {
		return big.NewInt(0)
	}
	d := new(big.Int).Sub(c.e, c.s)
	if d.Sign() != 0 && (d.Sign() < 0) != (st.Sign() < 0) {
		return big.NewInt(0)
	}
	q := new(big.Int).Quo(new(big.Int).Abs(d), new(big.Int).Abs(st))
	return q.Add(q, one)
}

const maxMembers = 40

func genRangeCases(t NT, rng *rand.Rand, n int) []rcase {
	mn, mx := t.min(), t.max()
	width := t.Bits
	if width == 0 {
		width = 80
	}
	var anchors []*big.Int
	add := func(x *big.Int) {
		if t.inRange(x) {
			anchors = append(anchors, x)
		}
	}
	for _, v := range []int64{-2, -1, 0, 1, 2, 100} {
		add(big.NewInt(v))
	}
	if mn != nil {
		for _, d := range []int64{0, 1, 2, 7} {
			add(new(big.Int).Add(mn, big.NewInt(d)))
		}
	} else {
		add(new(big.Int).Neg(pow2(70)))
	}
	if mx != nil {
		for _, d := range []int64{0, 1, 2, 7} {
			add(new(big.Int).Sub(mx, big.NewInt(d)))
		}
		add(new(big.Int).Rsh(mx, 1))
	} else {
		add(pow2(70))
	}
	stepMags := []*big.Int{big.NewInt(1), big.NewInt(2), big.NewInt(3), big.NewInt(7), big.NewInt(10), big.NewInt(255)}
	for _, k := range []int{width - 1, width - 2, width / 2} {
		if k > 1 {
			stepMags = append(stepMags, pow2(k), new(big.Int).Sub(pow2(k), one), new(big.Int).Add(pow2(k), one))
		}
	}
	if mx != nil {
		stepMags = append(stepMags, mx, new(big.Int).Sub(mx, one), new(big.Int).Quo(mx, big.NewInt(3)))
	}
	seen := map[string]bool{}
	var cases []rcase
	push := func(c rcase) {
		if !t.inRange(c.s) || !t.inRange(c.e) || (c.has && !t.inRange(c.p)) {
			return
		}
		if cnt := caseCount(c); cnt.Cmp(big.NewInt(maxMembers)) > 0 {
			return
		}
		if !seen[c.key()] {
			seen[c.key()] = true
			cases = append(cases, c)
		}
	}
	// fixed cases: constructor preconditions
	z := big.NewInt(0)
	push(rcase{z, big.NewInt(5), true, z})
	push(rcase{big.NewInt(5), z, false, z})
	push(rcase{z, big.NewInt(5), false, z})
	push(rcase{big.NewInt(5), z, true, big.NewInt(1)})
	push(rcase{big.NewInt(3), big.NewInt(3), true, big.NewInt(2)})
	if t.Signed {
		push(rcase{z, big.NewInt(5), true, big.NewInt(-1)})
		push(rcase{big.NewInt(5), z, true, big.NewInt(-2)})
		push(rcase{big.NewInt(3), big.NewInt(3), true, big.NewInt(-2)})
	}
	if mx != nil {
		// the whole type in a few huge steps
		push(rcase{mn, mx, true, mx})
		push(rcase{mn, mx, true, new(big.Int).Sub(mx, one)})
		push(rcase{mn, mx, true, pow2(width - 2)})
		if t.Signed {
			push(rcase{mx, mn, true, mn})
			push(rcase{mx, mn, true, new(big.Int).Add(mn, one)})
			push(rcase{mx, mn, true, new(big.Int).Neg(pow2(width - 2))})
		}
	}
	tries := 0
	for len(cases) < n && tries < 50*n {
		tries++
		a := anchors[rng.Intn(len(anchors))]
		if rng.Intn(6) == 0 {
			a = randVal(rng, t)
		}
		st := new(big.Int).Set(stepMags[rng.Intn(len(stepMags))])
		if rng.Intn(8) == 0 {
			st = new(big.Int).Abs(randVal(rng, t))
			if st.Sign() == 0 {
				st = big.NewInt(1)
			}
		}
		cnt := int64(1 + rng.Intn(maxMembers))
		if rng.Intn(3) == 0 {
			cnt = int64(1 + rng.Intn(4))
		}
		span := new(big.Int).Mul(st, big.NewInt(cnt-1))
		extra := new(big.Int)
		if st.Cmp(one) > 0 && rng.Intn(2) == 0 {
			extra.Rand(rng, st) // non-dividing: end is not reached
		}
		span.Add(span, extra)
		down := t.Signed && rng.Intn(2) == 0
		has := rng.Intn(5) != 0 || st.Cmp(one) != 0
		var c rcase
		switch rng.Intn(2) {
		case 0: // anchor is the start
			if down {
				c = rcase{a, new(big.Int).Sub(a, span), has, new(big.Int).Neg(st)}
			} else {
				c = rcase{a, new(big.Int).Add(a, span), has, st}
			}
		default: // anchor is the end
			if down {
				c = rcase{new(big.Int).Add(a, span), a, has, new(big.Int).Neg(st)}
			} else {
				c = rcase{new(big.Int).Sub(a, span), a, has, st}
			}
		}
		if !c.has {
			c.p = z
		}
		push(c)
	}
	return cases
}

func needlesFor(t NT, c rcase, rng *rand.Rand) []*big.Int {
	st := caseStep(c)
	cnt := caseCount(c)
	set := map[string]*big.Int{}
	add := func(x *big.Int) {
		if t.inRange(x) {
			set[x.String()] = x
		}
	}
	for _, v := range []int64{-1, 0, 1} {
		add(big.NewInt(v))
		add(new(big.Int).Add(c.s, big.NewInt(v)))
		add(new(big.Int).Add(c.e, big.NewInt(v)))
	}
	if mn := t.min(); mn != nil {
		add(mn)
	}
	if mx := t.max(); mx != nil {
		add(mx)
	}
	add(new(big.Int).Sub(c.s, st))
	if cnt.Sign() > 0 {
		n := int(cnt.Int64())
		for k := 0; k < n; k++ {
			m := new(big.Int).Add(c.s, new(big.Int).Mul(st, big.NewInt(int64(k))))
			if k < 3 || k >= n-3 || k%5 == 0 {
				add(m)
				add(new(big.Int).Add(m, one))
			}
		}
		last := new(big.Int).Add(c.s, new(big.Int).Mul(st, big.NewInt(int64(n-1))))
		add(new(big.Int).Add(last, st))
		add(new(big.Int).Sub(last, one))
	}
	lo, hi := c.s, c.e
	if lo.Cmp(hi) > 0 {
		lo, hi = hi, lo
	}
	if d := new(big.Int).Sub(hi, lo); d.Sign() > 0 {
		for i := 0; i < 3; i++ {
			add(new(big.Int).Add(lo, new(big.Int).Rand(rng, d)))
		}
	}
	var out []*big.Int
	for _, v := range set {
		out = append(out, v)
	}
	sort.Slice(out, func(i, j int) bool { return out[i].Cmp(out[j]) < 0 })
	return out
}

// rangeCaseEvents observes one range on both engines and folds identical observations into one event.
func rangeCaseEvents(wk *worker, t NT, c rcase, rng *rand.Rand) []REvent {
	var evs []REvent
	ctor := ctorExpr(t.Name, c.s, c.e, c.has, c.p)
	needles := needlesFor(t, c, rng)
	st := caseStep(c)
	cnt := caseCount(c)
	var obs []rangeObs
	for _, eng := range engines {
		obs = append(obs, wk.observeStaged(t.Name, maxMembers+8, ctor, needles, nil, eng.vm, 80))
	}
	seen := map[string]int{}
	for oi, o := range obs {
		k := obsKey(o)
		if j, ok := seen[k]; ok {
			evs[j].Via = append(evs[j].Via, engines[oi].via)
			continue
		}
		ev := REvent{T: t.Name, Start: toZ(c.s), End: toZ(c.e), Has: c.has, Arg: toZ(c.p), Ctor: o.Ctor, Step: toZ(zero),
			N: int(cnt.Int64()), Iter: o.Iter, Seq: []Z{}, Cs: []CObs{}, Via: []string{engines[oi].via}, Expr: ctor}
		if o.Ctor == "ok" {
			ev.Step = toZ(o.Step)
			for _, x := range o.Seq {
				ev.Seq = append(ev.Seq, toZ(x))
			}
			for i, x := range needles {
				if o.Contains[i] == "skipped" {
					continue
				}
				co := CObs{X: toZ(x), Out: o.Contains[i], Q: toZ(zero), M: toZ(zero)}
				if o.Contains[i] == "true" || o.Contains[i] == "false" {
					co.Out = "ok"
					co.R = o.Contains[i] == "true"
				}
				if st.Sign() != 0 {
					q, m := new(big.Int).QuoRem(new(big.Int).Sub(x, c.s), st, new(big.Int))
					co.Q, co.M = toZ(q), toZ(m)
				}
				ev.Cs = append(ev.Cs, co)
			}
		}
		seen[k] = len(evs)
		evs = append(evs, ev)
	}
	return evs
}

// numfix rangeone <type> <start> <end> <has:0|1> <arg> <out.ndjson>: replay of one wide-type range
func cmdRangeOne(tn, ss, es, hs, ps, outPath string) {
	t := typeByName(tn)
	s, ok1 := new(big.Int).SetString(ss, 10)
	e, ok2 := new(big.Int).SetString(es, 10)
	p, ok3 := new(big.Int).SetString(ps, 10)
	if !ok1 || !ok2 || !ok3 {
		util.Die("bad arguments")
	}
	evs := rangeCaseEvents(newWorker(), t, rcase{s, e, hs == "1", p}, rand.New(rand.NewSource(util.Seed())))
	out := util.NewOut(outPath)
	defer out.Close()
	for i, ev := range evs {
		ev.K = i + 1
		out.Write(ev)
	}
}

func obsKey(o rangeObs) string {
	var sb strings.Builder
	sb.WriteString(o.Ctor + "|")
	if o.Step != nil {
		sb.WriteString(o.Step.String())
	}
	sb.WriteString("|" + o.Iter + "|")
	for _, x := range o.Seq {
		sb.WriteString(x.String() + ",")
	}
	sb.WriteString("|" + strings.Join(o.Contains, ","))
	return sb.String()
}

type wideType struct {
	Name string `json:"name"`
}

func cmdRangeTrace(typesPath, outPath string, perType int) {
	raw, err := os.ReadFile(typesPath)
	if err != nil {
		util.Die("%v", err)
	}
	var names []string
	if err := json.Unmarshal(raw, &names); err != nil {
		util.Die("types: %v", err)
	}
	seed := util.Seed()
	type unit struct {
		t     NT
		cases []rcase
		ui    int
	}
	var units []unit
	for ti, n := range names {
		t := typeByName(n)
		rng := rand.New(rand.NewSource(seed*1000003 + int64(ti)*104729))
		cases := genRangeCases(t, rng, perType)
		for s := 0; s < len(cases); s += 25 {
			e := s + 25
			if e > len(cases) {
				e = len(cases)
			}
			units = append(units, unit{t, cases[s:e], len(units)})
		}
	}
	results := make([][]REvent, len(units))
	scriptsPer := make([]int, len(units))
	util.Parallel(len(units), runtime.NumCPU(), func(ui int) {
		u := units[ui]
		wk := newWorker()
		rng := rand.New(rand.NewSource(seed*31337 + int64(ui)))
		var evs []REvent
		for _, c := range u.cases {
			evs = append(evs, rangeCaseEvents(wk, u.t, c, rng)...)
		}
		results[ui] = evs
		scriptsPer[ui] = wk.scripts
	})
	out := util.NewOut(outPath)
	defer out.Close()
	k, scripts, cases, conts, iters := 0, 0, 0, 0, 0
	perT := map[string]int{}
	for ui, evs := range results {
		for _, ev := range evs {
			k++
			ev.K = k
			out.Write(ev)
			perT[ev.T]++
			conts += len(ev.Cs) * len(ev.Via)
			if ev.Ctor == "ok" {
				iters += len(ev.Via)
			}
		}
		scripts += scriptsPer[ui]
		cases += len(units[ui].cases)
	}
	out.Write(map[string]any{"summary": true, "events": k, "cases": cases, "scripts": scripts, "contains_evals": conts,
		"iterations": iters, "per_type": perT})
}
