package main

import (
	"fmt"
	"math/big"
	"math/rand"

	fix "github.com/onflow/fixed-point"

	"github.com/onflow/cadence/interpreter"

	"verifharness/util"
)

// numfix fmdprobe <n>: exploration aid (not used by the checks): UFix128.multiplyDivide on n random triples of several
// shapes against exact integer arithmetic; prints the disagreements by shape and by (observed - exact).
func cmdFmdProbe(n int) {
	t := typeByName("UFix128")
	wk := newWorker()
	rng := rand.New(rand.NewSource(util.Seed()))
	stats := map[string]int{}
	total := map[string]int{}
	shown := 0
	for i := 0; i < n; i++ {
		a, b := randVal(rng, t), randVal(rng, t)
		if i%2 == 0 {
			// large operands whose product needs more than 192 bits
			a = new(big.Int).Rand(rng, pow2(90+rng.Intn(38)))
			b = new(big.Int).Rand(rng, pow2(100+rng.Intn(28)))
		}
		if i%4 == 1 {
			// a = 2^k - 1 (- small): the low word of the quotient a*b/(b+d) is close to 2^64 - 1
			a = new(big.Int).Sub(pow2(64+rng.Intn(64)), big.NewInt(int64(1+rng.Intn(3))))
			b = new(big.Int).Rand(rng, pow2(66+rng.Intn(62)))
		}
		var c *big.Int
		shape := ""
		switch i % 5 {
		case 0:
			shape = "c=b+small"
			c = new(big.Int).Add(b, big.NewInt(int64(1+rng.Intn(1000))))
		case 1:
			shape = "c=b-small"
			c = new(big.Int).Sub(b, big.NewInt(int64(1+rng.Intn(1000))))
		case 2:
			shape = "c=random"
			c = randVal(rng, t)
		case 3:
			shape = "c=b+b>>k"
			c = new(big.Int).Add(b, new(big.Int).Rsh(b, uint(20+rng.Intn(60))))
		default:
			shape = "c=a+small"
			c = new(big.Int).Add(a, big.NewInt(int64(1+rng.Intn(1000))))
		}
		if !t.inRange(c) || c.Sign() <= 0 {
			continue
		}
		total[shape]++
		o := fxDirectMode(wk.inter, t, a, b, c, fix.RoundTruncate)
		w := roundDiv(new(big.Int).Mul(a, b), c, "")
		if o.Out != "ok" {
			if t.inRange(w) {
				stats[shape+" spurious-"+o.Out]++
			}
			continue
		}
		if o.R.Cmp(w) != 0 {
			d := new(big.Int).Sub(o.R, w)
			stats[shape+" diff="+d.String()]++
			if shown < 6 {
				shown++
				fmt.Printf("a=%s b=%s c=%s got=%s exact=%s bitlen(a,b,c)=%d,%d,%d\n", a, b, c, o.R, w, a.BitLen(), b.BitLen(), c.BitLen())
			}
		}
	}
	fmt.Println("totals", total)
	fmt.Println("disagreements", stats)
}

func fxDirectMode(inter *interpreter.Interpreter, t NT, a, b, c *big.Int, mode fix.RoundingMode) (o Obs) {
	defer func() {
		if r := recover(); r != nil {
			o = Obs{Out: classifyPanic(r), R: new(big.Int)}
		}
	}()
	res := t.mk(a).(interpreter.FixedPointValue).MultiplyDivide(inter, t.mk(b).(interpreter.FixedPointValue), t.mk(c).(interpreter.FixedPointValue), mode)
	return Obs{"ok", toBig(res)}
}
