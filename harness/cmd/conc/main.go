// conc: concurrent checking and execution vs. sequential runs (C36). Build with -race.
//
//	conc <results.ndjson>
//
// Seeded generated programs (a fraction with type / access errors) import one shared, already
// checked contract elaboration. Phase 1 (cold process-level caches): G goroutines check them
// concurrently; phase 2: the same programs sequentially; the error lists must be identical.
// Phase 3/4: accepted programs are executed through the runtime (each goroutine its own world,
// sharing only process-global state) concurrently and then sequentially; outcomes, logs, events and
// values must be identical. Any data race reported by the race detector fails the process
// (GORACE exitcode) and is reported by the check as a violation.
package main

import (
	"fmt"
	"math/rand"
	"os"
	goruntime "runtime"
	"strings"
	"sync"

	"github.com/onflow/cadence/ast"
	"github.com/onflow/cadence/common"
	"github.com/onflow/cadence/parser"
	"github.com/onflow/cadence/sema"

	"verifharness/host"
	"verifharness/util"
)

const shared = `
access(all) contract Sh {
access(all) entitlement E1
access(all) entitlement E2
access(all) entitlement mapping M { E1 -> E2 }
access(all) struct interface I { access(all) fun f(): Int }
access(all) struct S: I {
  access(all) var x: Int
  access(mapping M) let inner: Inner
  init() { self.x = 1; self.inner = Inner() }
  access(all) fun f(): Int { return self.x }
  access(E1) fun g(): Int { return 2 }
}
access(all) struct Inner { access(E2) fun h(): Int { return 3 } init() {} }
access(all) struct Item { access(all) var n: Int; init() { self.n = 0 } access(E1) fun bump() { self.n = self.n + 1 } }
access(all) struct Box {
  // container-typed fields: their type objects are shared by every program importing this contract
  access(all) let items: {String: auth(E1) &Item}
  access(all) let list: [auth(E1) &Item]
  access(all) let nested: {Int: [Int]}
  init() { self.items = {}; self.list = []; self.nested = {} }
}
access(all) resource R { access(all) let id: Int; init(_ i: Int) { self.id = i } }
access(all) enum Color: UInt8 { access(all) case red; access(all) case green }
access(all) fun mkR(_ i: Int): @R { return <- create R(i) }
}
`

func genProgram(r *rand.Rand, allowErrors bool) string {
	var sb strings.Builder
	sb.WriteString("import Sh from 0x1\n")
	sb.WriteString("access(all) fun bo_keys(_ b: Sh.Box) { b.items.forEachKey(fun (k: String): Bool { return true }) }\n")
	sb.WriteString("access(all) fun main(): Int {\n  var t = 0\n")
	n := 3 + r.Intn(8)
	for i := 0; i < n; i++ {
		k := []int{0, 1, 2, 3, 4, 5, 6, 9, 10, 11, 12, 13, 14, 15, 16, 17, 13, 14}[r.Intn(18)]
		if allowErrors && r.Intn(16) == 0 {
			k = []int{7, 8, 18}[r.Intn(3)]
		}
		switch k {
		case 0:
			fmt.Fprintf(&sb, "  let s%d = Sh.S(); t = t + s%d.f()\n", i, i)
		case 1:
			fmt.Fprintf(&sb, "  let r%d <- Sh.mkR(%d); t = t + r%d.id; destroy r%d\n", i, i, i, i)
		case 2:
			fmt.Fprintf(&sb, "  let a%d: [{Sh.I}] = [Sh.S()]; t = t + a%d[0].f()\n", i, i)
		case 3:
			fmt.Fprintf(&sb, "  let q%d = Sh.S(); let ref%d = &q%d as auth(Sh.E1) &Sh.S; t = t + ref%d.g() + ref%d.inner.h()\n", i, i, i, i, i)
		case 4:
			sb.WriteString("  t = t + Int(Sh.Color.green.rawValue)\n")
		case 5:
			fmt.Fprintf(&sb, "  let u%d: UInt8 = 200; t = t + Int(u%d.saturatingAdd(100)) + Int(Int128(%d) * 3)\n", i, i, i)
		case 6:
			fmt.Fprintf(&sb, "  t = t + \"abc\".length + [1,2,3].length + {1: 2}.keys.length; log(Type<auth(Sh.E1, Sh.E2) &{Sh.I}>().identifier)\n")
		case 9:
			// container fields reached through an (authorized) reference
			fmt.Fprintf(&sb, "  let bx%d = Sh.Box(); let br%d = &bx%d as auth(Sh.E1) &Sh.Box; t = t + br%d.items.length + br%d.list.length + br%d.nested.length\n", i, i, i, i, i, i)
		case 10:
			// the same container fields used on an owned value: insert / remove / forEachKey keep the element authorization
			fmt.Fprintf(&sb, "  let it%d = Sh.Item(); let bo%d = Sh.Box(); bo%d.items.insert(key: \"a\", &it%d as auth(Sh.E1) &Sh.Item); let ir%d = bo%d.items.remove(key: \"a\")!; ir%d.bump(); t = t + ir%d.n\n", i, i, i, i, i, i, i, i)
		case 11:
			fmt.Fprintf(&sb, "  let ia%d = Sh.Item(); let ba%d = Sh.Box(); ba%d.list.append(&ia%d as auth(Sh.E1) &Sh.Item); let ar%d = ba%d.list.removeFirst(); ar%d.bump(); t = t + ar%d.n; bo_keys(ba%d)\n", i, i, i, i, i, i, i, i, i)
		case 12:
			fmt.Fprintf(&sb, "  let bn%d = Sh.Box(); let nr%d = &bn%d as &Sh.Box; t = t + nr%d.nested.keys.length; bn%d.nested.forEachKey(fun (k: Int): Bool { return true })\n", i, i, i, i, i)
		case 13:
			// branch-local resource bookkeeping (the checker's per-branch resource sets): both branches invalidate
			fmt.Fprintf(&sb, "  let c%d <- Sh.mkR(%d); if t > %d { t = t + c%d.id; destroy c%d } else { destroy c%d }\n", i, i, i, i, i, i)
		case 14:
			// branches of mixed nesting depth, a second resource in one of them
			fmt.Fprintf(&sb, "  let d%d <- Sh.mkR(%d); if t > 1 { if t > 2 { destroy d%d } else { if t > 3 { destroy d%d } else { t = t + d%d.id; destroy d%d } } } else { let e%d <- Sh.mkR(0); destroy e%d; destroy d%d }\n", i, i, i, i, i, i, i, i, i)
		case 15:
			fmt.Fprintf(&sb, "  var k%d = 0; while k%d < 3 { k%d = k%d + 1; if k%d == 1 { continue }; let w%d <- Sh.mkR(k%d); if k%d == 2 { destroy w%d; break } else { destroy w%d } }\n", i, i, i, i, i, i, i, i, i, i)
		case 16:
			fmt.Fprintf(&sb, "  let g%d <- Sh.mkR(%d); switch t { case 1: t = t + 1; destroy g%d\n case 2: destroy g%d\n default: t = t + g%d.id; destroy g%d }\n", i, i, i, i, i, i)
		case 17:
			fmt.Fprintf(&sb, "  var o%d: @Sh.R? <- Sh.mkR(%d); if let v%d <- o%d { t = t + v%d.id; destroy v%d } else { t = t + 1 }\n", i, i, i, i, i, i)
		case 18:
			// a resource lost on one branch only: a deterministic checker error
			fmt.Fprintf(&sb, "  let l%d <- Sh.mkR(%d); if t > 0 { destroy l%d }\n", i, i, i)
		case 7:
			fmt.Fprintf(&sb, "  let bad%d: String = 1\n", i)
		case 8:
			fmt.Fprintf(&sb, "  let z%d = Sh.S(); let rr%d = &z%d as &Sh.S; t = t + rr%d.g()\n", i, i, i, i)
		}
	}
	sb.WriteString("  return t\n}\n")
	return sb.String()
}

func checkOne(code string, sharedElab *sema.Elaboration) string {
	program, err := parser.ParseProgram(nil, []byte(code), parser.Config{})
	if err != nil {
		return "PARSE " + err.Error()
	}
	checker, err := sema.NewChecker(program, common.StringLocation("p"), nil, &sema.Config{
		AccessCheckMode: sema.AccessCheckModeStrict,
		ImportHandler: func(_ *sema.Checker, loc common.Location, _ ast.Range) (sema.Import, error) {
			return sema.ElaborationImport{Elaboration: sharedElab}, nil
		},
		LocationHandler: func(identifiers []ast.Identifier, location common.Location) ([]sema.ResolvedLocation, error) {
			return []sema.ResolvedLocation{{Location: common.AddressLocation{Address: common.MustBytesToAddress([]byte{1}), Name: "Sh"}, Identifiers: identifiers}}, nil
		},
	})
	if err != nil {
		return "NEW " + err.Error()
	}
	err = checker.Check()
	if err == nil {
		return "OK"
	}
	ce, ok := err.(*sema.CheckerError)
	if !ok {
		return "ERR " + err.Error()
	}
	var msgs []string
	for _, e := range ce.Errors {
		msgs = append(msgs, fmt.Sprintf("%T:%s", e, e.Error()))
	}
	return strings.Join(msgs, ";")
}

func execOne(code string, engine string) string {
	w := host.NewWorld()
	if err := w.Deploy(host.Addr(1), "Sh", shared); err != nil {
		return "DEPLOY " + err.Error()
	}
	r := w.ScriptE(code, engine)
	v := ""
	if r.Value != nil {
		v = r.Value.String()
	}
	return r.Class + "|" + v + "|" + strings.Join(r.Logs, ",")
}

type Row struct {
	Phase string `json:"phase"`
	Prog  int    `json:"prog"`
	Conc  string `json:"conc"`
	Seq   string `json:"seq"`
	Src   string `json:"src"`
}

func main() {
	if len(os.Args) < 2 {
		util.Die("usage: conc results.ndjson")
	}
	out := util.NewOut(os.Args[1])
	defer out.Close()
	seed := util.Seed()
	r := rand.New(rand.NewSource(seed))
	nprog := 300
	if util.Tier() == "thorough" {
		nprog = 3000
	}
	goroutines := []int{2, 5, 16}[int(seed)%3]
	goruntime.GOMAXPROCS([]int{2, 4, 16}[int(seed/3)%3])

	program, err := parser.ParseProgram(nil, []byte(shared), parser.Config{})
	if err != nil {
		util.Die("shared: %v", err)
	}
	sc, err := sema.NewChecker(program, common.AddressLocation{Address: common.MustBytesToAddress([]byte{1}), Name: "Sh"}, nil,
		&sema.Config{AccessCheckMode: sema.AccessCheckModeStrict})
	if err != nil {
		util.Die("shared: %v", err)
	}
	if err := sc.Check(); err != nil {
		util.Die("shared check: %v", err)
	}
	freshShared := func() *sema.Elaboration {
		prog, err := parser.ParseProgram(nil, []byte(shared), parser.Config{})
		if err != nil {
			util.Die("shared: %v", err)
		}
		c, err := sema.NewChecker(prog, common.AddressLocation{Address: common.MustBytesToAddress([]byte{1}), Name: "Sh"}, nil,
			&sema.Config{AccessCheckMode: sema.AccessCheckModeStrict})
		if err != nil {
			util.Die("shared: %v", err)
		}
		if err := c.Check(); err != nil {
			util.Die("shared check: %v", err)
		}
		return c.Elaboration
	}
	var progs []string
	for i := 0; i < nprog; i++ {
		progs = append(progs, genProgram(r, true))
	}
	order := r.Perm(len(progs))
	// phase 1: concurrent checking with cold caches; phase 2: sequential reference
	results := make([]string, len(progs))
	var wg sync.WaitGroup
	for g := 0; g < goroutines; g++ {
		wg.Add(1)
		go func(g int) {
			defer wg.Done()
			for j := g; j < len(order); j += goroutines {
				i := order[j]
				results[i] = checkOne(progs[i], sc.Elaboration)
				goruntime.Gosched()
			}
		}(g)
	}
	wg.Wait()
	ndiff, accepted := 0, 0
	for i, p := range progs {
		// reference: the program checked alone, against a freshly checked copy of the shared contract
		seq := checkOne(p, freshShared())
		if seq == "OK" {
			accepted++
		}
		if seq != results[i] {
			ndiff++
			out.Write(Row{"check", i, results[i], seq, p})
		}
	}
	// phase 3/4: concurrent vs sequential execution of accepted programs
	var execs []string
	for i := 0; i < nprog/2; i++ {
		execs = append(execs, genProgram(r, false))
	}
	eres := make([]string, len(execs))
	for g := 0; g < goroutines; g++ {
		wg.Add(1)
		go func(g int) {
			defer wg.Done()
			for i := g; i < len(execs); i += goroutines {
				eres[i] = execOne(execs[i], host.Engines[i%2])
			}
		}(g)
	}
	wg.Wait()
	for i, p := range execs {
		seq := execOne(p, host.Engines[i%2])
		if strings.HasPrefix(seq, "user:CheckerError") || strings.Contains(seq, "Parsing") {
			util.Die("generated execution program rejected: %s\n%s", seq, p)
		}
		if seq != eres[i] {
			ndiff++
			out.Write(Row{"exec", i, eres[i], seq, p})
		}
	}
	out.Write(map[string]any{"summary": true, "checked": len(progs), "accepted": accepted, "executed": len(execs),
		"goroutines": goroutines, "gomaxprocs": goruntime.GOMAXPROCS(0), "diffs": ndiff})
}
