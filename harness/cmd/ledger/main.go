// ledger: records host-call traces of real executions for validation against spec/system/Ledger.tla (C24).
//
//	ledger <behaviours.ndjson> <trace.ndjson> <index.ndjson>
//
// Input: behaviours of the Storage specification (simulated histories). Every transaction of a
// behaviour is rendered to Cadence and executed on the real runtime with full host-call tracing
// and the runtime's linearization-point hooks (ExecEnd / CommitBegin / CommitEnd); a seeded
// fraction of the executions is turned into a failure injector (panic, failed assertion, failed
// pre-/post-condition, syntax error, type error, computation or memory limit at a varying depth)
// or into a *script* performing the same storage mutations through an authorized account.
// Output: one NDJSON event per line (trace) and an index line per execution
// {first,last,kind,variant,engine,src} so a rejected event can be mapped back to its program.
package main

import (
	"encoding/json"
	"fmt"
	"hash/fnv"
	"os"
	"strings"

	"github.com/onflow/cadence/common"

	"verifharness/host"
	. "verifharness/storagedrv"
	"verifharness/util"
)

type Ev struct {
	Ev   string `json:"ev"`
	Kind string `json:"kind,omitempty"`
	Ok   bool   `json:"ok"`
}

type Index struct {
	First   int    `json:"first"`
	Last    int    `json:"last"`
	Beh     int    `json:"beh"`
	Kind    string `json:"kind"`
	Variant string `json:"variant"`
	Engine  string `json:"engine"`
	Class   string `json:"class"`
	Writes  int    `json:"writes"`
	Src     string `json:"src"`
}

func h(parts ...any) uint32 {
	f := fnv.New32a()
	fmt.Fprint(f, parts...)
	return f.Sum32()
}

type limitErr struct{ what string }

func (e limitErr) Error() string { return e.what + " limit exceeded" }

var variants = []string{"plain", "plain", "plain", "panic", "assert", "pre", "post", "syntax", "typeerr",
	"complimit", "memlimit", "script", "script", "scriptfail", "execfail", "deploy", "deployfail", "deployremove"}

func contractCode(name string) string {
	return fmt.Sprintf("access(all) contract %s { access(all) var n: Int; access(all) let xs: [Int]; init() { self.n = 1; self.xs = [1, 2, 3] } access(all) fun bump() { self.n = self.n + 1; self.xs.append(self.n) } access(all) fun fail() { self.n = self.n + 1; panic(\"in call\") } }", name)
}

// inject rewrites the rendered transaction source according to the variant.
func inject(src, variant string, uniq int) (string, string) {
	kind := "tx"
	closePrepare := "  }\n}\n"
	switch variant {
	case "deploy", "deployfail", "deployremove":
		name := fmt.Sprintf("K%d", uniq)
		src = strings.Replace(src, "A1: auth(Storage) &Account", "A1: auth(Storage, Contracts) &Account", 1)
		stmt := fmt.Sprintf("    A1.contracts.add(name: %q, code: \"%x\".decodeHex())\n", name, contractCode(name))
		if variant == "deployremove" {
			stmt += fmt.Sprintf("    A1.contracts.remove(name: %q)\n", name)
		}
		if variant == "deployfail" {
			stmt += "    panic(\"after deploy\")\n"
		}
		src = strings.Replace(src, closePrepare, stmt+closePrepare, 1)
	case "panic":
		src = strings.Replace(src, closePrepare, "    panic(\"injected\")\n"+closePrepare, 1)
	case "assert":
		src = strings.Replace(src, closePrepare, "    assert(1 + 1 == 3, message: \"injected\")\n"+closePrepare, 1)
	case "pre":
		src = strings.Replace(src, closePrepare, "  }\n  pre { 1 + 1 == 3: \"injected pre\" }\n  execute { log(\"never\") }\n}\n", 1)
	case "post":
		src = strings.Replace(src, closePrepare, "  }\n  execute { log(\"exec\") }\n  post { 1 + 1 == 3: \"injected post\" }\n}\n", 1)
	case "execfail":
		src = strings.Replace(src, closePrepare, "  }\n  execute { let xs: [Int] = []; log(xs[3]) }\n}\n", 1)
	case "syntax":
		src = strings.Replace(src, closePrepare, "  } }\n}\n", 1)
	case "typeerr":
		src = strings.Replace(src, closePrepare, "    let z: String = 1\n"+closePrepare, 1)
	case "script", "scriptfail":
		kind = "script"
		body := src[strings.Index(src, "prepare("):]
		body = body[strings.Index(body, "{")+1:]
		body = strings.TrimSuffix(strings.TrimSpace(body), "}")
		body = strings.TrimSuffix(strings.TrimSpace(body), "}")
		fail := ""
		if variant == "scriptfail" {
			fail = "  panic(\"injected\")\n"
		}
		src = "import T from 0x1\naccess(all) fun main(): Int {\n  let A1 = getAuthAccount<auth(Storage) &Account>(0x2)\n  let A2 = getAuthAccount<auth(Storage) &Account>(0x3)\n" +
			body + "\n" + fail + "  return 1\n}\n"
	}
	return src, kind
}

func main() {
	if len(os.Args) < 4 {
		util.Die("usage: ledger behaviours.ndjson trace.ndjson index.ndjson")
	}
	if !host.HooksEnabled {
		util.Die("ledger driver must be built with -tags verif")
	}
	seed := util.Seed()
	tr := util.NewOut(os.Args[2])
	ix := util.NewOut(os.Args[3])
	defer tr.Close()
	defer ix.Close()
	pos := 0
	emit := func(e Ev) { tr.Write(e); pos++ }
	nexec := 0
	err := util.ReadLines(os.Args[1], func(line []byte) error {
		var b Beh
		if err := json.Unmarshal(line, &b); err != nil {
			return err
		}
		w := host.NewWorld()
		w.RecordTrace = true
		if err := w.Deploy(host.Addr(1), "T", TypesContract); err != nil {
			util.Die("deploy: %v", err)
		}
		signers := []common.Address{Accts["A1"], Accts["A2"]}
		var cur []Step
		txi := 0
		for _, s := range b.Steps {
			if s.Op == "begin" {
				cur = nil
				continue
			}
			res := ResString(s)
			endsTx := s.Op == "commit" || s.Op == "abort" || strings.HasPrefix(res, "err:")
			if s.Op != "commit" {
				cur = append(cur, s)
			}
			if !endsTx {
				continue
			}
			txi++
			variant := variants[h(seed, b.ID, txi)%uint32(len(variants))]
			if variant != "plain" && len(cur) > 0 && cur[len(cur)-1].Op == "abort" {
				cur = cur[:len(cur)-1] // the injector supplies the failure; avoid unreachable code
			}
			engine := host.Engines[h(seed, "e", b.ID, txi)%uint32(len(host.Engines))]
			src, kind := inject(Render(cur), variant, b.ID*1000+txi)
			w.ComputationGauge, w.MemoryGauge = nil, nil
			if variant == "complimit" || variant == "memlimit" {
				// measure the execution's total metering from the same state, then choose the budget:
				// half of the time just below the total (the limit then trips in the last meterings,
				// i.e. inside the commit), otherwise anywhere
				snap := w.Snapshot()
				var totalC, totalM uint64
				w.ComputationGauge = common.FunctionComputationGauge(func(u common.ComputationUsage) error { totalC += u.Intensity; return nil })
				w.MemoryGauge = common.FunctionMemoryGauge(func(u common.MemoryUsage) error { totalM += u.Amount; return nil })
				w.RecordTrace = false
				if kind == "script" {
					w.ScriptE(src, engine)
				} else {
					w.TxE(src, signers, engine)
				}
				w.RecordTrace = true
				w.Restore(snap)
				w.ComputationGauge, w.MemoryGauge = nil, nil
				total := totalC
				if variant == "memlimit" {
					total = totalM
				}
				hv := uint64(h(seed, "lim", b.ID, txi))
				var budget uint64
				switch {
				case total < 3:
					budget = 1
				case hv%2 == 0:
					budget = total - 1 - (hv/2)%min(total-1, 12)
				default:
					budget = 1 + (hv/2)%(total-1)
				}
				var used uint64
				if variant == "complimit" {
					w.ComputationGauge = common.FunctionComputationGauge(func(u common.ComputationUsage) error {
						used += u.Intensity
						if used > budget {
							return limitErr{"computation"}
						}
						return nil
					})
				} else {
					w.MemoryGauge = common.FunctionMemoryGauge(func(u common.MemoryUsage) error {
						used += u.Amount
						if used > budget {
							return limitErr{"memory"}
						}
						return nil
					})
				}
			}
			var r host.Result
			first := pos
			emit(Ev{Ev: "Begin", Kind: kind, Ok: true})
			if kind == "script" {
				r = w.ScriptE(src, engine)
			} else {
				r = w.TxE(src, signers, engine)
			}
			for _, te := range r.Trace {
				emit(Ev{Ev: te.Ev, Ok: te.Ok})
			}
			emit(Ev{Ev: "End", Ok: r.Err == nil})
			ix.Write(Index{First: first + 1, Last: pos, Beh: b.ID, Kind: kind, Variant: variant, Engine: engine,
				Class: r.Class, Writes: len(r.Writes), Src: src})
			nexec++
			if variant == "deploy" && r.Err == nil {
				// contract function executions (runtime.InvokeContractFunction): one succeeding, one failing
				for _, fn := range []string{"bump", "fail"} {
					name := fmt.Sprintf("K%d", b.ID*1000+txi)
					first := pos
					emit(Ev{Ev: "Begin", Kind: "call", Ok: true})
					cr := w.InvokeE(Accts["A1"], name, fn, engine)
					for _, te := range cr.Trace {
						emit(Ev{Ev: te.Ev, Ok: te.Ok})
					}
					emit(Ev{Ev: "End", Ok: cr.Err == nil})
					ix.Write(Index{First: first + 1, Last: pos, Beh: b.ID, Kind: "call", Variant: "call-" + fn, Engine: engine,
						Class: cr.Class, Writes: len(cr.Writes), Src: name + "." + fn + "()"})
					nexec++
				}
			}
		}
		return nil
	})
	if err != nil {
		util.Die("%v", err)
	}
	ix.Write(map[string]any{"summary": true, "executions": nexec, "events": pos})
}
