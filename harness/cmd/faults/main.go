// faults: host-fault enumeration for spec/system/HostFaults.tla (C28).
//
//	faults <trace.ndjson> <index.ndjson>
//
// For every corpus program: one clean run records the host-call trace; then for every
// (callback kind, call index) and both failure modes (error return, panic) the program is run
// again from the same pre-state with that call failing, and the resulting trace (with the
// outcome: ok / error carries the injected failure / panic escaped) is written for validation
// by TLC. Thorough tier adds sequences of two failures.
package main

import (
	"encoding/json"
	"errors"
	"fmt"
	"math/rand"
	"os"
	"sort"
	"strings"

	"github.com/onflow/cadence/common"
	cdcerrors "github.com/onflow/cadence/errors"

	"verifharness/host"
	"verifharness/storagedrv"
	"verifharness/util"
)

type Ev struct {
	Ev      string `json:"ev"`
	Kind    string `json:"kind,omitempty"`
	Detail  string `json:"detail"`
	Ok      bool   `json:"ok"`
	Carries bool   `json:"carries"`
	Crash   bool   `json:"crash"`
}

type Index struct {
	First   int    `json:"first"`
	Last    int    `json:"last"`
	Program string `json:"program"`
	Engine  string `json:"engine"`
	Faults  string `json:"faults"`
	Class   string `json:"class"`
	Err     string `json:"err"`
	Src     string `json:"src"`
}

type Program struct {
	Name         string
	Kind         string // tx | script
	Setup        []string
	Src          string
	Signers      []common.Address // default: account 0x2
	SetupSigners []common.Address // default: account 0x2
	Clean        string           // expected outcome class of the clean run ("" = ok)
}

func (p Program) signers() []common.Address {
	if p.Signers != nil {
		return p.Signers
	}
	return []common.Address{host.Addr(2)}
}

// modelPrograms turns transactions of Storage.tla behaviours into corpus programs: the chosen
// transaction is the program, the transactions before it are its setup.
func modelPrograms(path string, max int, rng *rand.Rand) []Program {
	var ps []Program
	_ = util.ReadLines(path, func(line []byte) error {
		if len(ps) >= max {
			return nil
		}
		var b storagedrv.Beh
		if err := json.Unmarshal(line, &b); err != nil {
			return err
		}
		var txs []string
		var fails []bool
		var cur []storagedrv.Step
		for _, s := range b.Steps {
			if s.Op == "begin" {
				cur = nil
				continue
			}
			res := storagedrv.ResString(s)
			ends := s.Op == "commit" || s.Op == "abort" || strings.HasPrefix(res, "err:")
			if s.Op != "commit" {
				cur = append(cur, s)
			}
			if ends {
				txs = append(txs, storagedrv.Render(cur))
				fails = append(fails, s.Op != "commit")
			}
		}
		var okIdx []int
		for i, f := range fails {
			if !f {
				okIdx = append(okIdx, i)
			}
		}
		if len(okIdx) == 0 {
			return nil
		}
		k := okIdx[rng.Intn(len(okIdx))]
		var setup []string
		for i := 0; i < k; i++ {
			if !fails[i] {
				setup = append(setup, txs[i])
			}
		}
		ps = append(ps, Program{Name: fmt.Sprintf("storage-model-h%d-t%d", b.ID, k), Kind: "tx", Setup: setup, Src: txs[k],
			Signers:      []common.Address{storagedrv.Accts["A1"], storagedrv.Accts["A2"]},
			SetupSigners: []common.Address{storagedrv.Accts["A1"], storagedrv.Accts["A2"]}})
		return nil
	})
	return ps
}

const eventsContract = `
access(all) contract E {
  access(all) event Ping(n: Int)
  access(all) resource R { access(all) event ResourceDestroyed(id: UInt64 = self.uuid) }
  access(all) fun mk(): @R { return <- create R() }
  access(all) fun ping(_ n: Int) { emit Ping(n: n) }
}`

const v1 = `access(all) contract C { access(all) let x: Int; init() { self.x = 1 } access(all) fun f(): Int { return self.x } }`
const v2 = `access(all) contract C { access(all) let x: Int; init() { self.x = 1 } access(all) fun f(): Int { return self.x + 1 } }`
const vbad = `access(all) contract C { access(all) let x: String; init() { self.x = "a" } }`

func hexs(s string) string { return fmt.Sprintf("%x", s) }

var setupStore = []string{
	`import T from 0x1
transaction { prepare(a: auth(Storage) &Account) {
  a.storage.save(T.S(id: 1), to: /storage/s)
  a.storage.save(<- T.mkR(id: 2), to: /storage/r)
  a.storage.save([1, 2, 3], to: /storage/arr)
  a.storage.save({"a": 1, "b": 2}, to: /storage/dict)
} }`,
}

func corpus() []Program {
	ps := []Program{
		{Name: "storage-read", Kind: "script", Setup: setupStore, Src: `import T from 0x1
access(all) fun main(): Int { let a = getAuthAccount<auth(Storage) &Account>(0x2)
  let s = a.storage.copy<T.S>(from: /storage/s)!
  let r = a.storage.borrow<&T.R>(from: /storage/r)!
  let arr = a.storage.borrow<&[Int]>(from: /storage/arr)!
  return s.id + r.id + arr[1] }`},
		{Name: "storage-mutate", Kind: "tx", Setup: setupStore, Src: `import T from 0x1
transaction { prepare(a: auth(Storage) &Account) {
  let arr = a.storage.borrow<auth(Mutate) &[Int]>(from: /storage/arr)!
  arr.append(4)
  let r <- a.storage.load<@T.R>(from: /storage/r)!
  a.storage.save(<- r, to: /storage/r2)
  a.storage.save("hello", to: /storage/str)
  log(arr.length) } }`},
		{Name: "storage-iterate", Kind: "script", Setup: setupStore, Src: `
access(all) fun main(): Int { let a = getAuthAccount<auth(Storage) &Account>(0x2)
  var n = 0
  a.storage.forEachStored(fun (path: StoragePath, type: Type): Bool { n = n + 1; return true })
  for p in a.storage.storagePaths { n = n + 1 }
  return n }`},
		{Name: "storage-destroy", Kind: "tx", Setup: setupStore, Src: `import T from 0x1
transaction { prepare(a: auth(Storage) &Account) {
  let r <- a.storage.load<@T.R>(from: /storage/r)!
  destroy r
  let d = a.storage.load<{String: Int}>(from: /storage/dict)!
  log(d["a"]) } }`},
		{Name: "events-uuid", Kind: "tx", Setup: nil, Src: `import E from 0x1
transaction { prepare(a: auth(Storage) &Account) {
  E.ping(1)
  let r <- E.mk()
  log(r.uuid)
  E.ping(2)
  destroy r } }`},
		{Name: "log-only", Kind: "script", Src: `access(all) fun main(): Int { log("a"); log("b"); return 1 }`},
		{Name: "random", Kind: "script", Src: `access(all) fun main(): UInt64 { let a = revertibleRandom<UInt64>(); let b = revertibleRandom<UInt8>(modulo: 7); return a + UInt64(b) }`},
		{Name: "block", Kind: "script", Src: `access(all) fun main(): UInt64 { let b = getCurrentBlock(); let c = getBlock(at: b.height)!; return b.height + c.height }`},
		{Name: "hash", Kind: "script", Src: `access(all) fun main(): Int { let h = HashAlgorithm.SHA3_256.hash([1, 2, 3]); let g = HashAlgorithm.SHA2_256.hashWithTag([1], tag: "x"); return h.length + g.length }`},
		{Name: "pubkey-verify", Kind: "script", Src: `access(all) fun main(): Bool {
  let pk = PublicKey(publicKey: "0102".decodeHex(), signatureAlgorithm: SignatureAlgorithm.ECDSA_P256)
  return pk.verify(signature: [1], signedData: [2], domainSeparationTag: "t", hashAlgorithm: HashAlgorithm.SHA3_256) }`},
		{Name: "account-info", Kind: "script", Src: `access(all) fun main(): UFix64 { let a = getAccount(0x2)
  return a.balance + a.availableBalance + UFix64(a.storage.used) + UFix64(a.storage.capacity) }`},
		{Name: "keys", Kind: "tx", Src: `transaction { prepare(a: auth(Keys) &Account) {
  let pk = PublicKey(publicKey: "0102".decodeHex(), signatureAlgorithm: SignatureAlgorithm.ECDSA_P256)
  let k = a.keys.add(publicKey: pk, hashAlgorithm: HashAlgorithm.SHA3_256, weight: 100.0)
  log(k.keyIndex)
  log(a.keys.count)
  let g = a.keys.get(keyIndex: 0)
  let r = a.keys.revoke(keyIndex: 0) } }`},
		{Name: "contract-add", Kind: "tx", Src: fmt.Sprintf(`transaction { prepare(a: auth(Contracts) &Account) {
  let c = a.contracts.add(name: "C", code: "%s".decodeHex())
  log(c.name)
  log(a.contracts.names) } }`, hexs(v1))},
		{Name: "contract-update", Kind: "tx", Setup: []string{fmt.Sprintf(`transaction { prepare(a: auth(Contracts) &Account) { a.contracts.add(name: "C", code: "%s".decodeHex()) } }`, hexs(v1))},
			Src: fmt.Sprintf(`transaction { prepare(a: auth(Contracts) &Account) {
  let c = a.contracts.update(name: "C", code: "%s".decodeHex())
  log(c.name) } }`, hexs(v2))},
		{Name: "contract-tryupdate-ok", Kind: "tx", Setup: []string{fmt.Sprintf(`transaction { prepare(a: auth(Contracts) &Account) { a.contracts.add(name: "C", code: "%s".decodeHex()) } }`, hexs(v1))},
			Src: fmt.Sprintf(`transaction { prepare(a: auth(Contracts) &Account) {
  log("TU-begin")
  let res = a.contracts.tryUpdate(name: "C", code: "%s".decodeHex())
  log("TU-end")
  log(res.deployedContract != nil) } }`, hexs(v2))},
		{Name: "contract-tryupdate-bad", Kind: "tx", Setup: []string{fmt.Sprintf(`transaction { prepare(a: auth(Contracts) &Account) { a.contracts.add(name: "C", code: "%s".decodeHex()) } }`, hexs(v1))},
			Src: fmt.Sprintf(`transaction { prepare(a: auth(Contracts) &Account) {
  log("TU-begin")
  let res = a.contracts.tryUpdate(name: "C", code: "%s".decodeHex())
  log("TU-end")
  log(res.deployedContract != nil) } }`, hexs(vbad))},
		{Name: "contract-remove-get", Kind: "tx", Setup: []string{fmt.Sprintf(`transaction { prepare(a: auth(Contracts) &Account) { a.contracts.add(name: "C", code: "%s".decodeHex()) } }`, hexs(v1))},
			Src: `transaction { prepare(a: auth(Contracts) &Account) {
  log(a.contracts.get(name: "C")?.name)
  log(a.contracts.borrow<&AnyStruct>(name: "C") != nil)
  let r = a.contracts.remove(name: "C")
  log(r?.name) } }`},
		{Name: "import-call", Kind: "script", Setup: []string{fmt.Sprintf(`transaction { prepare(a: auth(Contracts) &Account) { a.contracts.add(name: "C", code: "%s".decodeHex()) } }`, hexs(v1))},
			Src: `import C from 0x2
access(all) fun main(): Int { return C.f() }`},
		{Name: "caps", Kind: "tx", Setup: setupStore, Src: `import T from 0x1
transaction { prepare(a: auth(Capabilities, Storage) &Account) {
  let c = a.capabilities.storage.issue<&T.R>(/storage/r)
  a.capabilities.publish(c, at: /public/r)
  let g = a.capabilities.get<&T.R>(/public/r)
  log(g.check())
  log(a.capabilities.borrow<&T.R>(/public/r)!.id)
  let cs = a.capabilities.storage.getControllers(forPath: /storage/r)
  log(cs.length) } }`},
		{Name: "inbox", Kind: "tx", Setup: setupStore, Src: `import T from 0x1
transaction { prepare(a: auth(Capabilities, Inbox) &Account) {
  let c = a.capabilities.storage.issue<&T.R>(/storage/r)
  a.inbox.publish(c, name: "x", recipient: 0x3)
  let u = a.inbox.unpublish<&T.R>("x")
  log(u != nil) } }`},
		{Name: "create-account", Kind: "tx", Src: `transaction { prepare(a: auth(BorrowValue) &Account) {
  let n = Account(payer: a)
  log(n.address) } }`},
		{Name: "nested-resources", Kind: "tx", Setup: setupStore, Src: `import T from 0x1
transaction { prepare(a: auth(Storage) &Account) {
  let rs: @[T.R] <- []
  var i = 0
  while i < 5 { rs.append(<- T.mkR(id: i)); i = i + 1 }
  a.storage.save(<- rs, to: /storage/rs)
  let b = a.storage.borrow<&[T.R]>(from: /storage/rs)!
  log(b[3].id) } }`},
		{Name: "two-fresh-accounts", Kind: "tx", Signers: []common.Address{host.Addr(5), host.Addr(6)}, Src: `import T from 0x1
transaction { prepare(a: auth(Storage) &Account, b: auth(Storage) &Account) {
  a.storage.save(T.S(id: 1), to: /storage/s)
  b.storage.save(<- T.mkR(id: 2), to: /storage/r) } }`},
		{Name: "three-fresh-accounts", Kind: "tx", Signers: []common.Address{host.Addr(7), host.Addr(8), host.Addr(9)}, Src: `
transaction { prepare(a: auth(Storage) &Account, b: auth(Storage) &Account, c: auth(Storage) &Account) {
  c.storage.save("c", to: /storage/x)
  a.storage.save([1, 2, 3], to: /storage/x)
  b.storage.save({"k": 1}, to: /storage/x) } }`},
		{Name: "fresh-and-existing-accounts", Kind: "tx", Setup: setupStore, Signers: []common.Address{host.Addr(2), host.Addr(5), host.Addr(6)}, Src: `import T from 0x1
transaction { prepare(a: auth(Storage) &Account, b: auth(Storage) &Account, c: auth(Storage) &Account) {
  let r <- a.storage.load<@T.R>(from: /storage/r)!
  c.storage.save(<- r, to: /storage/r)
  b.storage.save(a.storage.copy<[Int]>(from: /storage/arr)!, to: /storage/arr)
  let xs: [String] = []
  var i = 0
  while i < 120 { xs.append("a fairly long string element to force several slabs ".concat(i.toString())); i = i + 1 }
  b.storage.save(xs, to: /storage/big)
  c.storage.save(xs, to: /storage/big) } }`},
		{Name: "args", Kind: "script", Src: `access(all) fun main(): Int { let xs = [1, 2, 3]; var s = 0; for x in xs { s = s + x }; return s }`},
	}
	return ps
}

// buildWorld creates the pre-state of a program.
func buildWorld(p Program) *host.World {
	w := host.NewWorld().FullHost()
	if err := w.Deploy(host.Addr(1), "T", storagedrv.TypesContract); err != nil {
		util.Die("deploy T: %v", err)
	}
	if err := w.Deploy(host.Addr(1), "E", eventsContract); err != nil {
		util.Die("deploy E: %v", err)
	}
	for _, s := range p.Setup {
		ss := p.SetupSigners
		if ss == nil {
			ss = []common.Address{host.Addr(2)}
		}
		r := w.Tx(s, ss, false)
		if r.Err != nil {
			util.Die("setup of %s: %v", p.Name, r.Err)
		}
	}
	return w
}

type faultSpec struct {
	kind  string
	index int
	panic bool
}

func (f faultSpec) String() string {
	m := "err"
	if f.panic {
		m = "panic"
	}
	return fmt.Sprintf("%s#%d/%s", f.kind, f.index, m)
}

func run(p Program, engine string, faults []faultSpec) (host.Result, *host.World) {
	w := buildWorld(p)
	w.RecordTrace = true
	for _, f := range faults {
		w.Faults = append(w.Faults, &host.Fault{Kind: f.kind, Index: f.index, Panic: f.panic})
	}
	var r host.Result
	if p.Kind == "script" {
		r = w.ScriptE(p.Src, engine)
	} else {
		r = w.TxE(p.Src, p.signers(), engine)
	}
	return r, w
}

func carries(err error) bool {
	if err == nil {
		return false
	}
	var ie host.InjectedError
	if errors.As(err, &ie) {
		return true
	}
	// ExternalError chains may hold the injected error as Recovered without supporting As through ParentError
	var found bool
	var walk func(e error, d int)
	walk = func(e error, d int) {
		if e == nil || d > 60 || found {
			return
		}
		if _, ok := e.(host.InjectedError); ok {
			found = true
			return
		}
		if ee, ok := e.(cdcerrors.ExternalError); ok {
			walk(ee.Recovered, d+1)
		}
		if pe, ok := e.(cdcerrors.ParentError); ok {
			for _, c := range pe.ChildErrors() {
				walk(c, d+1)
			}
		}
		if u, ok := e.(interface{ Unwrap() error }); ok {
			walk(u.Unwrap(), d+1)
		}
	}
	walk(err, 0)
	return found
}

func main() {
	if len(os.Args) < 3 {
		util.Die("usage: faults trace.ndjson index.ndjson")
	}
	thorough := util.Tier() == "thorough"
	rng := rand.New(rand.NewSource(util.Seed()))
	tr := util.NewOut(os.Args[1])
	ix := util.NewOut(os.Args[2])
	defer tr.Close()
	defer ix.Close()
	pos := 0
	nruns := 0
	points := map[string]bool{}
	record := func(p Program, engine string, faults []faultSpec, r host.Result) {
		first := pos
		tr.Write(Ev{Ev: "Begin", Kind: p.Kind, Ok: true})
		pos++
		for _, te := range r.Trace {
			tr.Write(Ev{Ev: te.Ev, Detail: te.Detail, Ok: te.Ok})
			pos++
		}
		tr.Write(Ev{Ev: "End", Ok: r.Err == nil, Carries: carries(r.Err), Crash: r.Class == "crash"})
		pos++
		fs := ""
		for _, f := range faults {
			fs += f.String() + " "
		}
		es := ""
		if r.Err != nil {
			es = r.Err.Error()
			if len(es) > 600 {
				es = es[:600]
			}
		}
		ix.Write(Index{First: first + 1, Last: pos, Program: p.Name, Engine: engine, Faults: fs, Class: r.Class, Err: es, Src: p.Src})
		nruns++
	}
	progs := corpus()
	if len(os.Args) > 3 {
		n := 12
		if thorough {
			n = 120
		}
		progs = append(progs, modelPrograms(os.Args[3], n, rng)...)
	}
	for pi, p := range progs {
		engine := host.Engines[(pi+int(util.Seed()))%2] // interp / vm alternate; vmopt in thorough
		engines := []string{engine}
		if thorough {
			engines = host.Engines
		}
		for _, engine := range engines {
			clean, _ := run(p, engine, nil)
			if clean.Err != nil {
				util.Die("corpus program %s fails without faults on %s: %v", p.Name, engine, clean.Err)
			}
			record(p, engine, nil, clean)
			counts := map[string]int{}
			for _, te := range clean.Trace {
				switch te.Ev {
				case "ExecEnd", "CommitBegin", "CommitEnd":
					continue
				}
				counts[te.Ev]++
			}
			kinds := make([]string, 0, len(counts))
			for k := range counts {
				kinds = append(kinds, k)
			}
			sort.Strings(kinds)
			var singles []faultSpec
			for _, k := range kinds {
				n := counts[k]
				idxs := []int{}
				if thorough || n <= 10 {
					for i := 0; i < n; i++ {
						idxs = append(idxs, i)
					}
				} else {
					for i := 0; i < 6; i++ {
						idxs = append(idxs, i)
					}
					for i := n - 4; i < n; i++ {
						idxs = append(idxs, i)
					}
				}
				for _, i := range idxs {
					for _, pn := range []bool{false, true} {
						singles = append(singles, faultSpec{k, i, pn})
					}
				}
			}
			for _, f := range singles {
				r, _ := run(p, engine, []faultSpec{f})
				record(p, engine, []faultSpec{f}, r)
				points[p.Name+"|"+f.kind+"|"+fmt.Sprint(f.index)] = true
			}
			if thorough && len(singles) > 1 {
				for k := 0; k < 60; k++ {
					a := singles[rng.Intn(len(singles))]
					b := singles[rng.Intn(len(singles))]
					r, _ := run(p, engine, []faultSpec{a, b})
					record(p, engine, []faultSpec{a, b}, r)
				}
			}
		}
	}
	ix.Write(map[string]any{"summary": true, "executions": nruns, "events": pos, "crash_points": len(points), "programs": len(progs)})
}
