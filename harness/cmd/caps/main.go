// caps: replays behaviours of spec/system/Caps.tla into the real runtime (C25).
//
//	caps <behaviours.ndjson> <results.ndjson> [engines=interp,vm]
//
// The first line of the behaviours file is {"config":{accts,spaths,ppaths,maxCtrl,wants}} as printed
// by TLC; every further line is {"id":n,"kind":..,"steps":[{"a":label,"o":obs?}]}. A label is the `last`
// record of the specification (call, arguments, predicted outcome class k, predicted result res,
// predicted events ev); `o` is the specification's observation of the state after the step (Obs or
// ObsLight). Every call is rendered as one transaction whose logs and emitted capability events are
// compared with the label; after a step that carries an observation a fresh *script* re-reads
// controllers, path index, published capabilities and (for a full observation) the complete
// borrow/check/get matrix, and compares them with the specification.
package main

import (
	"encoding/json"
	"fmt"
	"os"
	"runtime"
	"sort"
	"strings"
	"sync/atomic"

	"github.com/onflow/cadence"
	"github.com/onflow/cadence/common"

	"verifharness/host"
	"verifharness/util"
)

type BT struct {
	Auth []string `json:"auth"`
	Ty   string   `json:"ty"`
}
type Cap struct {
	Acct string `json:"acct"`
	ID   int    `json:"id"`
	Bt   BT     `json:"bt"`
}
type Ev struct {
	E   string `json:"e"`
	A   string `json:"a"`
	P   string `json:"p"`
	PP  string `json:"pp"`
	N   string `json:"n"`
	To  string `json:"to"`
	ID  int    `json:"id"`
	Bt  *BT    `json:"bt"`
	Cap *Cap   `json:"cap"`
}
type Label struct {
	Op   string          `json:"op"`
	A    string          `json:"a"`
	P    string          `json:"p"`
	PP   string          `json:"pp"`
	N    string          `json:"n"`
	To   string          `json:"to"`
	Me   string          `json:"me"`
	From string          `json:"from"`
	V    string          `json:"v"`
	Tag  string          `json:"tag"`
	Kind string          `json:"kind"`
	K    string          `json:"k"`
	ID   int             `json:"id"`
	Bt   *BT             `json:"bt"`
	W    *BT             `json:"w"`
	Cap  *Cap            `json:"cap"`
	Res  json.RawMessage `json:"res"`
	Ev   []Ev            `json:"ev"`
}
type Ctl struct {
	Nil    bool   `json:"nil"`
	Kind   string `json:"kind"`
	Bt     BT     `json:"bt"`
	Target string `json:"target"`
	Tag    string `json:"tag"`
}
type AW struct {
	A  string `json:"a"`
	PP string `json:"pp"`
	W  BT     `json:"w"`
}
type CW struct {
	C Cap `json:"c"`
	W BT  `json:"w"`
}
type Obs struct {
	Ctrl  map[string][]Ctl                      `json:"ctrl"`
	Paths map[string]map[string][]int           `json:"paths"`
	Acc   map[string][]int                      `json:"acc"`
	Pub   map[string]map[string]json.RawMessage `json:"pub"`
	Caps  *[]Cap                                `json:"caps"`
	Get   []AW                                  `json:"get"`
	Pbor  []AW                                  `json:"pbor"`
	Bor   []CW                                  `json:"bor"`
}
type Step struct {
	A Label `json:"a"`
	O *Obs  `json:"o"`
}
type Beh struct {
	ID    int    `json:"id"`
	Kind  string `json:"kind"`
	Steps []Step `json:"steps"`
}
type Config struct {
	Accts   []string `json:"accts"`
	SPaths  []string `json:"spaths"`
	PPaths  []string `json:"ppaths"`
	MaxCtrl int      `json:"maxCtrl"`
	Wants   []BT     `json:"wants"`
}
type Fail struct {
	ID      int    `json:"id"`
	Engine  string `json:"engine"`
	Kind    string `json:"kind"`
	Op      string `json:"op"`
	Harness bool   `json:"harness,omitempty"`
	Step    int    `json:"step"`
	Msg     string `json:"msg"`
	Src     string `json:"src,omitempty"`
	Beh     *Beh   `json:"beh,omitempty"`
}

const typesContract = `
access(all) contract T {
  access(all) entitlement E
  access(all) entitlement F
  access(all) struct interface I {}
  access(all) struct S: I { init() {} }
  access(all) struct S2 { init() {} }
  access(all) resource R { init() {} }
  access(all) fun mkR(): @R { return <- create R() }
}`

var cfg Config
var addrs = map[string]common.Address{"A1": host.Addr(2), "A2": host.Addr(3)}
var holder = host.Addr(4)

const tPrefix = "A.0000000000000001.T."

func addrLit(a string) string { return addrs[a].HexWithPrefix() }

func tyExpr(t string) string {
	switch t {
	case "S", "S2", "R":
		return "T." + t
	case "I":
		return "{T.I}"
	}
	return t // AnyStruct, AnyResource, Account
}

func tyID(t string) string {
	switch t {
	case "S", "S2", "R":
		return tPrefix + t
	case "I":
		return "{" + tPrefix + "I}"
	}
	return t
}

func sortedAuth(b BT) []string {
	a := append([]string(nil), b.Auth...)
	sort.Strings(a)
	return a
}

// refExpr renders a borrow type as Cadence source.
func refExpr(b BT) string {
	a := sortedAuth(b)
	if len(a) == 0 {
		return "&" + tyExpr(b.Ty)
	}
	for i := range a {
		a[i] = "T." + a[i]
	}
	return "auth(" + strings.Join(a, ", ") + ") &" + tyExpr(b.Ty)
}

// refID is the type identifier the runtime prints for the borrow type.
func refID(b BT) string {
	a := sortedAuth(b)
	if len(a) == 0 {
		return "&" + tyID(b.Ty)
	}
	for i := range a {
		a[i] = tPrefix + a[i]
	}
	return "auth(" + strings.Join(a, ",") + ")&" + tyID(b.Ty)
}

func authKey(b BT) string {
	a := sortedAuth(b)
	if len(a) == 0 {
		return "n"
	}
	return strings.Join(a, "")
}

// capKey is the storage path (in the holder account) under which the driver keeps a capability value.
func capKey(c Cap) string {
	return fmt.Sprintf("/storage/c_%s_%d_%s_%s", c.Acct, c.ID, authKey(c.Bt), c.Bt.Ty)
}

func isNil(raw json.RawMessage) bool {
	var n struct {
		Nil bool `json:"nil"`
	}
	return json.Unmarshal(raw, &n) == nil && n.Nil
}

func capDesc(c Cap) []string {
	return []string{fmt.Sprint(c.ID), addrLit(c.Acct), "Capability<" + refID(c.Bt) + ">"}
}

const logCap = "log(c.id.toString()); log(c.address.toString()); log(c.getType().identifier)"

func ctlDesc(a string, id int, k Ctl) string {
	tgt := "-"
	if k.Kind == "storage" {
		tgt = "/storage/" + k.Target
	}
	return fmt.Sprintf("%s|%d|%s|%s|%s|%d|%s", k.Kind, id, refID(k.Bt), tgt, k.Tag, id, addrLit(a))
}

// Cadence expressions describing a controller reference `k`.
const storageCtlDesc = `"storage|".concat(k.capabilityID.toString()).concat("|").concat(k.borrowType.identifier).concat("|").concat(k.target().toString()).concat("|").concat(k.tag).concat("|").concat(k.capability.id.toString()).concat("|").concat(k.capability.address.toString())`
const accountCtlDesc = `"account|".concat(k.capabilityID.toString()).concat("|").concat(k.borrowType.identifier).concat("|-|").concat(k.tag).concat("|").concat(k.capability.id.toString()).concat("|").concat(k.capability.address.toString())`

type rendered struct {
	src     string
	want    []string // expected log lines (nil entries of setIdx are compared as sets)
	setIdx  map[int]bool
	errs    []string // permitted error classes when the label predicts a failure
	wantErr bool
}

func idSet(raw json.RawMessage, suffix string) string {
	var ids []int
	json.Unmarshal(raw, &ids)
	sort.Ints(ids)
	parts := make([]string, len(ids))
	for i, id := range ids {
		parts[i] = fmt.Sprint(id) + suffix
	}
	return strings.Join(parts, ",")
}

func normSet(s string) string {
	if s == "" {
		return ""
	}
	parts := strings.Split(strings.TrimSuffix(s, ","), ",")
	sort.Slice(parts, func(i, j int) bool {
		var a, b int
		fmt.Sscan(parts[i], &a)
		fmt.Sscan(parts[j], &b)
		if a != b {
			return a < b
		}
		return parts[i] < parts[j]
	})
	return strings.Join(parts, ",")
}

func render(l Label) (*rendered, error) {
	r := &rendered{setIdx: map[int]bool{}}
	var body string
	switch l.Op {
	case "save":
		v := map[string]string{"S": "T.S()", "S2": "T.S2()", "R": "<- T.mkR()"}[l.V]
		body = fmt.Sprintf("%s.storage.save(%s, to: /storage/%s); log(\"ok\")", l.A, v, l.P)
		r.want = []string{"ok"}
	case "load":
		if l.V == "R" {
			body = fmt.Sprintf("let v <- %s.storage.load<@T.R>(from: /storage/%s)!; destroy v; log(\"ok\")", l.A, l.P)
		} else {
			body = fmt.Sprintf("let v = %s.storage.load<T.%s>(from: /storage/%s)!; log(\"ok\")", l.A, l.V, l.P)
		}
		r.want = []string{"ok"}
	case "issue", "issueAccount":
		call := fmt.Sprintf("%s.capabilities.storage.issue<%s>(/storage/%s)", l.A, refExpr(*l.Bt), l.P)
		if l.Op == "issueAccount" {
			call = fmt.Sprintf("%s.capabilities.account.issue<%s>()", l.A, refExpr(*l.Bt))
		}
		key := capKey(*l.Cap)
		body = fmt.Sprintf("let c: Capability = %s; %s\n    let old = H.storage.load<Capability>(from: %s); H.storage.save(c, to: %s)", call, logCap, key, key)
		r.want = capDesc(*l.Cap)
	case "retarget":
		body = fmt.Sprintf("if let k = %s.capabilities.storage.getController(byCapabilityID: %d) { k.retarget(/storage/%s); log(\"storage\"); log(k.target().toString()) } else { log(\"nil\") }", l.A, l.ID, l.P)
		if l.K == "ok" {
			r.want = []string{"storage", "/storage/" + l.P}
		} else {
			r.want = []string{"nil"}
		}
	case "setTag", "delete":
		call := fmt.Sprintf("setTag(%q); log(\"%%s\"); log(k.tag)", l.Tag)
		if l.Op == "delete" {
			call = "delete(); log(\"%s\")"
		}
		body = fmt.Sprintf("if let k = %[1]s.capabilities.storage.getController(byCapabilityID: %[2]d) { k.%[3]s } else { if let k = %[1]s.capabilities.account.getController(byCapabilityID: %[2]d) { k.%[4]s } else { log(\"nil\") } }",
			l.A, l.ID, fmt.Sprintf(call, "storage"), fmt.Sprintf(call, "account"))
		var res string
		json.Unmarshal(l.Res, &res)
		r.want = []string{res}
		if l.Op == "setTag" && l.K == "ok" {
			r.want = append(r.want, l.Tag)
		}
	case "getController":
		desc := storageCtlDesc
		if l.Kind == "account" {
			desc = accountCtlDesc
		}
		body = fmt.Sprintf("if let k = %s.capabilities.%s.getController(byCapabilityID: %d) { log(%s) } else { log(\"nil\") }", l.A, l.Kind, l.ID, desc)
		if isNil(l.Res) {
			r.want = []string{"nil"}
		} else {
			var k Ctl
			if err := json.Unmarshal(l.Res, &k); err != nil {
				return nil, err
			}
			r.want = []string{ctlDesc(l.A, l.ID, k)}
		}
	case "getControllers":
		body = fmt.Sprintf("var s = \"\"; for k in %s.capabilities.storage.getControllers(forPath: /storage/%s) { s = s.concat(k.capabilityID.toString()).concat(\"@\").concat(k.target().toString()).concat(\",\") }; log(s)", l.A, l.P)
		r.want = []string{idSet(l.Res, "@/storage/"+l.P)}
		r.setIdx[0] = true
	case "forEachController":
		body = fmt.Sprintf("var s = \"\"; %s.capabilities.storage.forEachController(forPath: /storage/%s, fun (k: &StorageCapabilityController): Bool { s = s.concat(k.capabilityID.toString()).concat(\"@\").concat(k.target().toString()).concat(\",\"); return true }); log(s)", l.A, l.P)
		r.want = []string{idSet(l.Res, "@/storage/"+l.P)}
		r.setIdx[0] = true
	case "accountControllers":
		body = fmt.Sprintf("var s = \"\"; for k in %[1]s.capabilities.account.getControllers() { s = s.concat(k.capabilityID.toString()).concat(\",\") }; log(s)\n    var s2 = \"\"; %[1]s.capabilities.account.forEachController(fun (k: &AccountCapabilityController): Bool { s2 = s2.concat(k.capabilityID.toString()).concat(\",\"); return true }); log(s2)", l.A)
		r.want = []string{idSet(l.Res, ""), idSet(l.Res, "")}
		r.setIdx[0], r.setIdx[1] = true, true
	case "borrow":
		w := refExpr(*l.W)
		body = fmt.Sprintf("let c = H.storage.copy<Capability>(from: %s)!; log(c.borrow<%s>() != nil); log(c.check<%s>())", capKey(*l.Cap), w, w)
		b := strings.TrimSpace(string(l.Res))
		if os.Getenv("VERIF_SELFTEST_CORRUPT") == "1" && b == "true" { // negative control: corrupt the predicted borrow result
			b = "false"
		}
		r.want = []string{b, b}
	case "exists":
		body = fmt.Sprintf("log(getAccount(%s).capabilities.exists(/public/%s))", addrLit(l.A), l.PP)
		r.want = []string{strings.TrimSpace(string(l.Res))}
	case "pubBorrow":
		body = fmt.Sprintf("log(getAccount(%s).capabilities.borrow<%s>(/public/%s) != nil)", addrLit(l.A), refExpr(*l.W), l.PP)
		r.want = []string{strings.TrimSpace(string(l.Res))}
	case "publish":
		body = fmt.Sprintf("let c = H.storage.copy<Capability>(from: %s)!; %s.capabilities.publish(c, at: /public/%s); log(\"ok\")", capKey(*l.Cap), l.A, l.PP)
		if l.K == "err" {
			var kinds []string
			json.Unmarshal(l.Res, &kinds)
			r.wantErr = true
			for _, k := range kinds {
				switch k {
				case "address":
					r.errs = append(r.errs, "user:CapabilityAddressPublishingError")
				case "overwrite":
					r.errs = append(r.errs, "user:OverwriteError")
				}
			}
		} else {
			r.want = []string{"ok"}
		}
	case "unpublish":
		body = fmt.Sprintf("if let c = %s.capabilities.unpublish(/public/%s) { %s } else { log(\"nil\") }", l.A, l.PP, logCap)
		if isNil(l.Res) {
			r.want = []string{"nil"}
		} else {
			var c Cap
			json.Unmarshal(l.Res, &c)
			r.want = capDesc(c)
		}
	case "get":
		w := refExpr(*l.W)
		save := "log(c.check()); log(c.borrow() != nil)"
		if l.K == "ok" {
			var c Cap
			json.Unmarshal(l.Res, &c)
			key := capKey(c)
			save = fmt.Sprintf("log(c.address.toString()); log(c.getType().identifier); let u: Capability = c; let old = H.storage.load<Capability>(from: %s); H.storage.save(u, to: %s)", key, key)
			r.want = capDesc(c)
		} else {
			r.want = []string{"0", "false", "false"}
		}
		body = fmt.Sprintf("let c = getAccount(%s).capabilities.get<%s>(/public/%s); log(c.id.toString()); if c.id %s 0 { %s }", addrLit(l.A), w, l.PP,
			map[bool]string{true: "!=", false: "=="}[l.K == "ok"], save)
	case "inboxPublish":
		body = fmt.Sprintf("let c = H.storage.copy<Capability>(from: %s)!; %s.inbox.publish(c, name: %q, recipient: %s); log(\"ok\")", capKey(*l.Cap), l.A, l.N, addrLit(l.To))
		r.want = []string{"ok"}
	case "inboxUnpublish", "inboxClaim":
		if l.Op == "inboxUnpublish" {
			body = fmt.Sprintf("if let c = %s.inbox.unpublish<%s>(%q) { %s } else { log(\"nil\") }", l.A, refExpr(*l.W), l.N, logCap)
		} else {
			body = fmt.Sprintf("if let c = %s.inbox.claim<%s>(%q, provider: %s) { %s } else { log(\"nil\") }", l.Me, refExpr(*l.W), l.N, addrLit(l.From), logCap)
		}
		switch l.K {
		case "err":
			r.wantErr = true
			r.errs = []string{"user:ForceCastTypeMismatchError"}
		case "nil":
			r.want = []string{"nil"}
		default:
			var c Cap
			json.Unmarshal(l.Res, &c)
			r.want = capDesc(c)
		}
	default:
		return nil, fmt.Errorf("unknown op %q", l.Op)
	}
	r.src = "import T from 0x1\ntransaction {\n  prepare(A1: auth(Storage, Capabilities, Inbox) &Account, A2: auth(Storage, Capabilities, Inbox) &Account, H: auth(Storage) &Account) {\n    " + body + "\n  }\n}\n"
	return r, nil
}

func expectedEvents(l Label) []string {
	var out []string
	for _, e := range l.Ev {
		switch e.E {
		case "StorageIssued":
			out = append(out, fmt.Sprintf("flow.StorageCapabilityControllerIssued(id=%d,address=%s,type=Type<%s>(),path=/storage/%s)", e.ID, addrLit(e.A), refID(*e.Bt), e.P))
		case "AccountIssued":
			out = append(out, fmt.Sprintf("flow.AccountCapabilityControllerIssued(id=%d,address=%s,type=Type<%s>())", e.ID, addrLit(e.A), refID(*e.Bt)))
		case "StorageDeleted":
			out = append(out, fmt.Sprintf("flow.StorageCapabilityControllerDeleted(id=%d,address=%s)", e.ID, addrLit(e.A)))
		case "AccountDeleted":
			out = append(out, fmt.Sprintf("flow.AccountCapabilityControllerDeleted(id=%d,address=%s)", e.ID, addrLit(e.A)))
		case "TargetChanged":
			out = append(out, fmt.Sprintf("flow.StorageCapabilityControllerTargetChanged(id=%d,address=%s,path=/storage/%s)", e.ID, addrLit(e.A), e.P))
		case "Published":
			out = append(out, fmt.Sprintf("flow.CapabilityPublished(address=%s,path=/public/%s,capability=Capability<%s>(address: %s, id: %d))", addrLit(e.A), e.PP, refID(e.Cap.Bt), addrLit(e.Cap.Acct), e.Cap.ID))
		case "Unpublished":
			out = append(out, fmt.Sprintf("flow.CapabilityUnpublished(address=%s,path=/public/%s)", addrLit(e.A), e.PP))
		case "InboxPublished":
			out = append(out, fmt.Sprintf("flow.InboxValuePublished(provider=%s,recipient=%s,name=%q,type=Type<Capability<%s>>())", addrLit(e.A), addrLit(e.To), e.N, refID(*e.Bt)))
		case "InboxUnpublished":
			out = append(out, fmt.Sprintf("flow.InboxValueUnpublished(provider=%s,name=%q)", addrLit(e.A), e.N))
		case "InboxClaimed":
			out = append(out, fmt.Sprintf("flow.InboxValueClaimed(provider=%s,recipient=%s,name=%q)", addrLit(e.A), addrLit(e.To), e.N))
		default:
			out = append(out, "?"+e.E)
		}
	}
	return out
}

// projection renders the observation script and the expected key=value lines for an observation.
func projection(o *Obs) (string, []string) {
	var sb strings.Builder
	var want []string
	sb.WriteString("import T from 0x1\naccess(all) fun main(): [String] {\n  let out: [String] = []\n  let H = getAuthAccount<auth(Storage) &Account>(0x4)\n")
	emit := func(key, expr, expect string) {
		fmt.Fprintf(&sb, "  out.append(%s)\n", expr)
		want = append(want, key+"="+expect)
	}
	for _, a := range cfg.Accts {
		fmt.Fprintf(&sb, "  let %s = getAuthAccount<auth(Capabilities) &Account>(%s)\n  let pub%s = getAccount(%s)\n", a, addrLit(a), a, addrLit(a))
		for id := 1; id <= cfg.MaxCtrl+1; id++ {
			exp := "nil"
			if id <= len(o.Ctrl[a]) && !o.Ctrl[a][id-1].Nil {
				exp = ctlDesc(a, id, o.Ctrl[a][id-1])
			}
			fmt.Fprintf(&sb, "  if let k = %[1]s.capabilities.storage.getController(byCapabilityID: %[2]d) { out.append(%[3]s) } else { if let k = %[1]s.capabilities.account.getController(byCapabilityID: %[2]d) { out.append(%[4]s) } else { out.append(\"nil\") } }\n",
				a, id, storageCtlDesc, accountCtlDesc)
			want = append(want, fmt.Sprintf("ctrl %s %d=%s", a, id, exp))
		}
		for _, p := range cfg.SPaths {
			ids := append([]int(nil), o.Paths[a][p]...)
			sort.Ints(ids)
			exp := ""
			for i, id := range ids {
				if i > 0 {
					exp += ","
				}
				exp += fmt.Sprintf("%d@/storage/%s", id, p)
			}
			fmt.Fprintf(&sb, "  var g%[1]s%[2]s = \"\"; for k in %[1]s.capabilities.storage.getControllers(forPath: /storage/%[2]s) { g%[1]s%[2]s = g%[1]s%[2]s.concat(k.capabilityID.toString()).concat(\"@\").concat(k.target().toString()).concat(\",\") }; out.append(g%[1]s%[2]s)\n", a, p)
			want = append(want, fmt.Sprintf("getControllers %s %s=%s", a, p, exp))
			fmt.Fprintf(&sb, "  var f%[1]s%[2]s = \"\"; %[1]s.capabilities.storage.forEachController(forPath: /storage/%[2]s, fun (k: &StorageCapabilityController): Bool { f%[1]s%[2]s = f%[1]s%[2]s.concat(k.capabilityID.toString()).concat(\"@\").concat(k.target().toString()).concat(\",\"); return true }); out.append(f%[1]s%[2]s)\n", a, p)
			want = append(want, fmt.Sprintf("forEachController %s %s=%s", a, p, exp))
		}
		ids := append([]int(nil), o.Acc[a]...)
		sort.Ints(ids)
		exp := ""
		for i, id := range ids {
			if i > 0 {
				exp += ","
			}
			exp += fmt.Sprint(id)
		}
		fmt.Fprintf(&sb, "  var ga%[1]s = \"\"; for k in %[1]s.capabilities.account.getControllers() { ga%[1]s = ga%[1]s.concat(k.capabilityID.toString()).concat(\",\") }; out.append(ga%[1]s)\n", a)
		want = append(want, fmt.Sprintf("account.getControllers %s=%s", a, exp))
		fmt.Fprintf(&sb, "  var fa%[1]s = \"\"; %[1]s.capabilities.account.forEachController(fun (k: &AccountCapabilityController): Bool { fa%[1]s = fa%[1]s.concat(k.capabilityID.toString()).concat(\",\"); return true }); out.append(fa%[1]s)\n", a)
		want = append(want, fmt.Sprintf("account.forEachController %s=%s", a, exp))
		for _, pp := range cfg.PPaths {
			emit(fmt.Sprintf("exists %s %s", a, pp), fmt.Sprintf("pub%s.capabilities.exists(/public/%s) ? \"true\" : \"false\"", a, pp), fmt.Sprint(!isNil(o.Pub[a][pp])))
		}
	}
	if o.Caps != nil { // full observation: the borrow / check / get matrix
		get := map[string]bool{}
		for _, x := range o.Get {
			get[x.A+"/"+x.PP+"/"+refExpr(x.W)] = true
		}
		pbor := map[string]bool{}
		for _, x := range o.Pbor {
			pbor[x.A+"/"+x.PP+"/"+refExpr(x.W)] = true
		}
		bor := map[string]bool{}
		for _, x := range o.Bor {
			bor[capKey(x.C)+"/"+refExpr(x.W)] = true
		}
		gi := 0
		for _, a := range cfg.Accts {
			for _, pp := range cfg.PPaths {
				for _, w := range cfg.Wants {
					we := refExpr(w)
					k := a + "/" + pp + "/" + we
					// get<W>: valid id?; the capability it returns borrows exactly when capabilities.borrow<W> does
					gi++
					fmt.Fprintf(&sb, "  let g%d = pub%s.capabilities.get<%s>(/public/%s)\n", gi, a, we, pp)
					emit("get "+k, fmt.Sprintf("(g%[1]d.id != 0 ? \"t\" : \"f\").concat(g%[1]d.check() ? \"t\" : \"f\").concat(g%[1]d.borrow() != nil ? \"t\" : \"f\").concat(pub%[2]s.capabilities.borrow<%[3]s>(/public/%[4]s) != nil ? \"t\" : \"f\")", gi, a, we, pp),
						tf(get[k])+tf(pbor[k])+tf(pbor[k])+tf(pbor[k]))
				}
			}
		}
		caps := append([]Cap(nil), (*o.Caps)...)
		sort.Slice(caps, func(i, j int) bool { return capKey(caps[i]) < capKey(caps[j]) })
		for i, c := range caps {
			fmt.Fprintf(&sb, "  let c%d = H.storage.copy<Capability>(from: %s)!\n", i, capKey(c))
			emit("cap "+capKey(c), fmt.Sprintf("c%[1]d.id.toString().concat(\"|\").concat(c%[1]d.address.toString()).concat(\"|\").concat(c%[1]d.getType().identifier)", i),
				strings.Join(capDesc(c), "|"))
			for _, w := range cfg.Wants {
				we := refExpr(w)
				k := capKey(c) + "/" + we
				emit("borrow "+k, fmt.Sprintf("(c%[1]d.borrow<%[2]s>() != nil ? \"t\" : \"f\").concat(c%[1]d.check<%[2]s>() ? \"t\" : \"f\")", i, we), tf(bor[k])+tf(bor[k]))
			}
		}
	}
	sb.WriteString("  return out\n}\n")
	return sb.String(), want
}

func tf(b bool) string {
	if b {
		return "t"
	}
	return "f"
}

func isCheckerError(class string) bool {
	return class == "user:ParsingCheckingError" || class == "user:CheckerError" || strings.Contains(class, "Parsing")
}

func replay(b *Beh, useVM bool) *Fail {
	eng := "interp"
	if useVM {
		eng = "vm"
	}
	w := host.NewWorld()
	if err := w.Deploy(host.Addr(1), "T", typesContract); err != nil {
		return &Fail{ID: b.ID, Engine: eng, Kind: "deploy", Harness: true, Msg: err.Error()}
	}
	signers := []common.Address{addrs["A1"], addrs["A2"], holder}
	for si := range b.Steps {
		s := &b.Steps[si]
		l := s.A
		fail := func(kind, msg, src string) *Fail {
			return &Fail{ID: b.ID, Engine: eng, Kind: kind, Op: l.Op, Step: si, Msg: msg, Src: src, Beh: b}
		}
		if l.Op != "end" {
			rd, err := render(l)
			if err != nil {
				f := fail("render", err.Error(), "")
				f.Harness = true
				return f
			}
			r := w.Tx(rd.src, signers, useVM)
			if host.IsInternal(r.Class) {
				return fail("internal", r.Class+": "+r.Err.Error(), rd.src)
			}
			if isCheckerError(r.Class) {
				f := fail("render", r.Err.Error(), rd.src)
				f.Harness = true
				return f
			}
			if (r.Err != nil) != rd.wantErr {
				return fail("outcome", fmt.Sprintf("model predicts failure=%v (%v), runtime returned %v", rd.wantErr, rd.errs, r.Err), rd.src)
			}
			if rd.wantErr {
				ok := false
				for _, e := range rd.errs {
					ok = ok || e == r.Class
				}
				if !ok {
					return fail("errkind", fmt.Sprintf("model predicts one of %v, runtime failed with %s: %v", rd.errs, r.Class, r.Err), rd.src)
				}
				if len(r.Writes) != 0 {
					return fail("write-on-failure", fmt.Sprintf("failed transaction wrote %d registers", len(r.Writes)), rd.src)
				}
			} else {
				got := append([]string(nil), r.Logs...)
				want := append([]string(nil), rd.want...)
				if len(got) == len(want) {
					for i := range got {
						if rd.setIdx[i] {
							got[i] = normSet(got[i])
							want[i] = normSet(want[i])
						}
					}
				}
				if strings.Join(got, "\n") != strings.Join(want, "\n") {
					return fail("result", fmt.Sprintf("call result: model=%q runtime=%q", want, got), rd.src)
				}
				var evs []string
				for _, e := range r.Events {
					if strings.HasPrefix(e.Type, "flow.") {
						evs = append(evs, e.String())
					}
				}
				wantEv := expectedEvents(l)
				if strings.Join(evs, "\n") != strings.Join(wantEv, "\n") {
					return fail("events", fmt.Sprintf("emitted events: model=%q runtime=%q", wantEv, evs), rd.src)
				}
			}
		}
		if s.O == nil {
			continue
		}
		src, want := projection(s.O)
		pr := w.Script(src, useVM)
		if pr.Err != nil {
			if host.IsInternal(pr.Class) {
				return fail("internal", "observation script: "+pr.Class+": "+pr.Err.Error(), src)
			}
			if isCheckerError(pr.Class) {
				f := fail("render", "observation script: "+pr.Err.Error(), src)
				f.Harness = true
				return f
			}
			return fail("observation-failed", "observation script failed: "+pr.Class+": "+pr.Err.Error(), src)
		}
		if len(pr.Writes) != 0 {
			return fail("script-write", fmt.Sprintf("script wrote %d registers", len(pr.Writes)), src)
		}
		arr, ok := pr.Value.(cadence.Array)
		if !ok || len(arr.Values) != len(want) {
			f := fail("render", fmt.Sprintf("observation script returned %d values, expected %d", len(arr.Values), len(want)), src)
			f.Harness = true
			return f
		}
		var diffs []string
		kind := "state"
		for i, v := range arr.Values {
			g := string(v.(cadence.String))
			eq := strings.Index(want[i], "=")
			key, exp := want[i][:eq], want[i][eq+1:]
			if strings.HasPrefix(key, "getControllers") || strings.HasPrefix(key, "forEachController") || strings.HasPrefix(key, "account.") {
				g, exp = normSet(g), normSet(exp)
			}
			if g != exp {
				if len(diffs) == 0 {
					kind = "state-" + strings.SplitN(key, " ", 2)[0]
				}
				diffs = append(diffs, fmt.Sprintf("%s: model=%s runtime=%s", key, exp, g))
			}
		}
		if len(diffs) > 0 {
			if len(diffs) > 8 {
				diffs = append(diffs[:8], fmt.Sprintf("(+%d more)", len(diffs)-8))
			}
			return fail(kind, "observable state after the step differs:\n"+strings.Join(diffs, "\n"), src)
		}
	}
	return nil
}

func main() {
	if len(os.Args) < 3 {
		util.Die("usage: caps behaviours.ndjson results.ndjson [engines]")
	}
	engines := []bool{false, true}
	if len(os.Args) > 3 {
		engines = nil
		for _, e := range strings.Split(os.Args[3], ",") {
			engines = append(engines, e == "vm")
		}
	}
	var behs []*Beh
	first := true
	err := util.ReadLines(os.Args[1], func(line []byte) error {
		if first {
			first = false
			var c struct {
				Config *Config `json:"config"`
			}
			if err := json.Unmarshal(line, &c); err != nil || c.Config == nil {
				return fmt.Errorf("first line must be the config: %v", err)
			}
			cfg = *c.Config
			return nil
		}
		var b Beh
		if err := json.Unmarshal(line, &b); err != nil {
			return err
		}
		behs = append(behs, &b)
		return nil
	})
	if err != nil {
		util.Die("reading behaviours: %v", err)
	}
	sort.Strings(cfg.Accts)
	sort.Strings(cfg.SPaths)
	sort.Strings(cfg.PPaths)
	out := util.NewOut(os.Args[2])
	defer out.Close()
	var nfail, ntx, nobs int64
	util.Parallel(len(behs), runtime.NumCPU(), func(i int) {
		b := behs[i]
		for _, vm := range engines {
			if f := replay(b, vm); f != nil {
				atomic.AddInt64(&nfail, 1)
				out.Write(f)
			}
		}
		for _, s := range b.Steps {
			if s.A.Op != "end" {
				atomic.AddInt64(&ntx, 1)
			}
			if s.O != nil {
				atomic.AddInt64(&nobs, 1)
			}
		}
	})
	out.Write(map[string]any{"summary": true, "behaviours": len(behs), "engines": len(engines),
		"transactions": ntx, "observations": nobs, "failures": nfail})
}
