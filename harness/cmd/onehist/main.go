// onehist replays one replay file written by the C01/C34 checks (prefix + source) on one engine
// and prints the outcome of every step. Debugging aid; not used by a registered check.
package main

import (
	"encoding/json"
	"fmt"
	"os"
	"strings"

	"github.com/onflow/cadence/common"

	"verifharness/host"
)

func main() {
	var d struct {
		Replay struct {
			Prefix []string `json:"prefix"`
			Source string   `json:"source"`
			Engine string   `json:"engine"`
		} `json:"replay"`
	}
	b, err := os.ReadFile(os.Args[1])
	if err != nil {
		panic(err)
	}
	if err := json.Unmarshal(b, &d); err != nil {
		panic(err)
	}
	eng := d.Replay.Engine
	if len(os.Args) > 2 {
		eng = os.Args[2]
	}
	w := host.NewWorld()
	steps := append(append([]string{}, d.Replay.Prefix...), d.Replay.Source)
	for i, src := range steps {
		var r host.Result
		if strings.Contains(src, "fun main") {
			r = w.ScriptE(src, eng)
		} else {
			signer := host.Addr(2)
			if i == 0 || strings.Contains(src, "contracts.add") {
				signer = host.Addr(1)
			}
			r = w.TxE(src, []common.Address{signer}, eng)
		}
		fmt.Printf("step %d class=%s logs=%v\n", i, r.Class, r.Logs)
		if r.Err != nil {
			e := r.Err.Error()
			if len(e) > 3000 {
				e = e[:3000]
			}
			fmt.Println(e)
		}
	}
}
