package main

import (
	"fmt"
	"math/big"

	"github.com/onflow/cadence/common"
	"github.com/onflow/cadence/interpreter"
	"verifharness/host"
)

type rec struct{ total uint64 }

func (r *rec) MeterMemory(u common.MemoryUsage) error {
	if u.Kind == common.MemoryKindBigInt {
		r.total += u.Amount
	}
	return nil
}

func main() {
	g := &rec{}
	inter, err := interpreter.NewInterpreter(nil, common.ScriptLocation{}, &interpreter.Config{MemoryGauge: g})
	if err != nil {
		panic(err)
	}
	a := interpreter.NewUnmeteredInt128ValueFromBigInt(big.NewInt(1))
	b := interpreter.NewUnmeteredInt128ValueFromBigInt(big.NewInt(7))
	fmt.Println(a.BitwiseLeftShift(inter, b), g.total)
	x := interpreter.NewUnmeteredIntValueFromBigInt(new(big.Int).Lsh(big.NewInt(1), 190))
	y := interpreter.NewUnmeteredIntValueFromInt64(63)
	g.total = 0
	fmt.Println(x.BitwiseRightShift(inter, y), g.total)
	w := host.NewWorld()
	for _, vm := range []bool{false, true} {
		r := w.Script(`access(all) fun main(): [AnyStruct] { return [(1 as Int128) << 7, (-1 as Int128) >> 18446744073709551616, (-2658455991569831745807614120560689151 as Int128) << 15, (1 as Int128) << 15, (255 as Int128) << 8] }`, vm)
		fmt.Println(r.Value, r.Err, r.Class)
		r = w.Script(`access(all) fun main(): AnyStruct { return (100 as Int8) + 100 }`, vm)
		fmt.Println(r.Value, r.Class)
		r = w.Script(`access(all) fun main(): AnyStruct { return (100 as Int8) / 0 }`, vm)
		fmt.Println(r.Value, r.Class)
		r = w.Script(`access(all) fun main(): AnyStruct { return (100 as Int8) << -1 }`, vm)
		fmt.Println(r.Value, r.Class)
		r = w.Script(`access(all) fun main(): AnyStruct { return (0 as UInt8) - 1 }`, vm)
		fmt.Println(r.Value, r.Class)
		r = w.Script(`access(all) fun main(): AnyStruct { return (1 as Int) << 18446744073709551616 }`, vm)
		fmt.Println(r.Value, r.Class)
	}
}
