// num: driver of the numeric family (properties C11, C12, C13, C14, C32).
//
//	num sema  <out.json>                          numeric types and saturating members as declared by sema
//	num table <prop> <rows.ndjson> <out.ndjson>   spec -> impl: compare every entry of the TLC-computed 8-bit
//	                                              tables with the value methods and with scripts on both engines
//	num trace <prop> <operands.ndjson> <out.ndjson> <pairsPerType>
//	                                              impl -> spec: execute operations of the wide types on
//	                                              spec-defined + seeded random operands, log one event per
//	                                              distinct observation (judged by spec/num/NumJudge.tla)
//	num one <type> <op> <a> <b> <out.ndjson>      replay of one case (decimal operands)
//	num meter <rows.ndjson> <out.ndjson>          C32: materialise operand descriptors, run the real operations
//	                                              with a recording memory gauge (judged by spec/num/BigMeter.tla)
//
// The driver only executes and records; every verdict is TLC's. Integers cross the boundary as
// {"n":neg,"m":[limbs base 2^15, little endian]} (spec/num/Bignum.tla).
package main

import (
	"encoding/json"
	"fmt"
	"math/big"
	"math/rand"
	"os"
	"reflect"
	"runtime"
	"sort"
	"strconv"
	"strings"
	"sync"

	"github.com/onflow/cadence"
	"github.com/onflow/cadence/common"
	"github.com/onflow/cadence/interpreter"
	"github.com/onflow/cadence/sema"

	"verifharness/host"
	"verifharness/util"
)

// ---------------------------------------------------------------- integers <-> spec encoding

type Z struct {
	N bool  `json:"n"`
	M []int `json:"m"`
}

var mask15 = big.NewInt(0x7fff)

func toZ(x *big.Int) Z {
	z := Z{N: x.Sign() < 0, M: []int{}}
	t := new(big.Int).Abs(x)
	for t.Sign() != 0 {
		z.M = append(z.M, int(new(big.Int).And(t, mask15).Int64()))
		t.Rsh(t, 15)
	}
	return z
}

func fromZ(z Z) *big.Int {
	x := new(big.Int)
	for i := len(z.M) - 1; i >= 0; i-- {
		x.Lsh(x, 15)
		x.Or(x, big.NewInt(int64(z.M[i])))
	}
	if z.N {
		x.Neg(x)
	}
	return x
}

var zero = big.NewInt(0)
var one = big.NewInt(1)

func pow2(n int) *big.Int { return new(big.Int).Lsh(one, uint(n)) }

// ---------------------------------------------------------------- types

type NT struct {
	Name   string
	Signed bool
	Bits   int // 0 = unbounded
	Word   bool
	Scale  int
}

var allTypes = []NT{
	{"Int8", true, 8, false, 0}, {"Int16", true, 16, false, 0}, {"Int32", true, 32, false, 0}, {"Int64", true, 64, false, 0},
	{"Int128", true, 128, false, 0}, {"Int256", true, 256, false, 0}, {"Int", true, 0, false, 0},
	{"UInt8", false, 8, false, 0}, {"UInt16", false, 16, false, 0}, {"UInt32", false, 32, false, 0}, {"UInt64", false, 64, false, 0},
	{"UInt128", false, 128, false, 0}, {"UInt256", false, 256, false, 0}, {"UInt", false, 0, false, 0},
	{"Word8", false, 8, true, 0}, {"Word16", false, 16, true, 0}, {"Word32", false, 32, true, 0}, {"Word64", false, 64, true, 0},
	{"Word128", false, 128, true, 0}, {"Word256", false, 256, true, 0},
	{"Fix64", true, 64, false, 8}, {"UFix64", false, 64, false, 8}, {"Fix128", true, 128, false, 24}, {"UFix128", false, 128, false, 24},
}

func typeByName(n string) NT {
	for _, t := range allTypes {
		if t.Name == n {
			return t
		}
	}
	util.Die("unknown type %s", n)
	return NT{}
}

// only used to keep generated operands inside the type (the spec re-checks InRange on every event)
func (t NT) min() *big.Int {
	if !t.Signed {
		return big.NewInt(0)
	}
	if t.Bits == 0 {
		return nil
	}
	return new(big.Int).Neg(pow2(t.Bits - 1))
}
func (t NT) max() *big.Int {
	if t.Bits == 0 {
		return nil
	}
	if t.Signed {
		return new(big.Int).Sub(pow2(t.Bits-1), one)
	}
	return new(big.Int).Sub(pow2(t.Bits), one)
}
func (t NT) inRange(x *big.Int) bool {
	if mn := t.min(); mn != nil && x.Cmp(mn) < 0 {
		return false
	}
	if mx := t.max(); mx != nil && x.Cmp(mx) > 0 {
		return false
	}
	return true
}

// mk builds the interpreter value of type t for the (scaled) integer x. x must be in range.
func (t NT) mk(x *big.Int) interpreter.Value {
	c := new(big.Int).Set(x)
	switch t.Name {
	case "Int8":
		return interpreter.NewUnmeteredInt8Value(int8(x.Int64()))
	case "Int16":
		return interpreter.NewUnmeteredInt16Value(int16(x.Int64()))
	case "Int32":
		return interpreter.NewUnmeteredInt32Value(int32(x.Int64()))
	case "Int64":
		return interpreter.NewUnmeteredInt64Value(x.Int64())
	case "Int128":
		return interpreter.NewUnmeteredInt128ValueFromBigInt(c)
	case "Int256":
		return interpreter.NewUnmeteredInt256ValueFromBigInt(c)
	case "Int":
		return interpreter.NewUnmeteredIntValueFromBigInt(c)
	case "UInt8":
		return interpreter.NewUnmeteredUInt8Value(uint8(x.Uint64()))
	case "UInt16":
		return interpreter.NewUnmeteredUInt16Value(uint16(x.Uint64()))
	case "UInt32":
		return interpreter.NewUnmeteredUInt32Value(uint32(x.Uint64()))
	case "UInt64":
		return interpreter.NewUnmeteredUInt64Value(x.Uint64())
	case "UInt128":
		return interpreter.NewUnmeteredUInt128ValueFromBigInt(c)
	case "UInt256":
		return interpreter.NewUnmeteredUInt256ValueFromBigInt(c)
	case "UInt":
		return interpreter.NewUnmeteredUIntValueFromBigInt(c)
	case "Word8":
		return interpreter.NewUnmeteredWord8Value(uint8(x.Uint64()))
	case "Word16":
		return interpreter.NewUnmeteredWord16Value(uint16(x.Uint64()))
	case "Word32":
		return interpreter.NewUnmeteredWord32Value(uint32(x.Uint64()))
	case "Word64":
		return interpreter.NewUnmeteredWord64Value(x.Uint64())
	case "Word128":
		return interpreter.NewUnmeteredWord128ValueFromBigInt(c)
	case "Word256":
		return interpreter.NewUnmeteredWord256ValueFromBigInt(c)
	case "Fix64":
		return interpreter.NewUnmeteredFix64Value(x.Int64())
	case "UFix64":
		return interpreter.NewUnmeteredUFix64Value(x.Uint64())
	case "Fix128":
		return interpreter.NewFix128ValueFromBigInt(nil, c)
	case "UFix128":
		return interpreter.NewUFix128ValueFromBigInt(nil, c)
	}
	util.Die("mk: unknown type %s", t.Name)
	return nil
}

// toBig reads the (scaled) integer out of an interpreter value.
func toBig(v interpreter.Value) *big.Int {
	switch v := v.(type) {
	case interpreter.Int8Value:
		return big.NewInt(int64(v))
	case interpreter.Int16Value:
		return big.NewInt(int64(v))
	case interpreter.Int32Value:
		return big.NewInt(int64(v))
	case interpreter.Int64Value:
		return big.NewInt(int64(v))
	case interpreter.UInt8Value:
		return big.NewInt(int64(v))
	case interpreter.UInt16Value:
		return big.NewInt(int64(v))
	case interpreter.UInt32Value:
		return big.NewInt(int64(v))
	case interpreter.UInt64Value:
		return new(big.Int).SetUint64(uint64(v))
	case interpreter.Word8Value:
		return big.NewInt(int64(v))
	case interpreter.Word16Value:
		return big.NewInt(int64(v))
	case interpreter.Word32Value:
		return big.NewInt(int64(v))
	case interpreter.Word64Value:
		return new(big.Int).SetUint64(uint64(v))
	case interpreter.Fix64Value:
		return big.NewInt(int64(v))
	case interpreter.UFix64Value:
		return new(big.Int).SetUint64(uint64(v.UFix64Value))
	case interpreter.Fix128Value:
		return new(big.Int).Set(v.ToBigInt())
	case interpreter.UFix128Value:
		return new(big.Int).Set(v.ToBigInt())
	case interpreter.BigNumberValue:
		return new(big.Int).Set(v.ToBigInt(nil))
	}
	util.Die("toBig: unexpected value %T", v)
	return nil
}

// ---------------------------------------------------------------- operations

// observation of one call
type Obs struct {
	Out string
	R   *big.Int
}

func (o Obs) key() string {
	if o.R == nil {
		return o.Out
	}
	return o.Out + ":" + o.R.String()
}

func classifyPanic(r any) string {
	name := ""
	if e, ok := r.(error); ok {
		t := reflect.TypeOf(e)
		for t.Kind() == reflect.Ptr {
			t = t.Elem()
		}
		name = t.Name()
	} else {
		name = fmt.Sprintf("%T", r)
	}
	return outcomeOfErrorName(name)
}

func outcomeOfErrorName(name string) string {
	switch name {
	case "OverflowError":
		return "overflow"
	case "UnderflowError":
		return "underflow"
	case "DivisionByZeroError":
		return "divzero"
	case "NegativeShiftError":
		return "negshift"
	}
	return "other:" + name
}

var satMember = map[string]string{
	"satadd": sema.NumericTypeSaturatingAddFunctionName,
	"satsub": sema.NumericTypeSaturatingSubtractFunctionName,
	"satmul": sema.NumericTypeSaturatingMultiplyFunctionName,
	"satdiv": sema.NumericTypeSaturatingDivideFunctionName,
}

// direct calls the interpreter's value method.
func direct(inter *interpreter.Interpreter, t NT, op string, a, b *big.Int) (o Obs) {
	defer func() {
		if r := recover(); r != nil {
			o = Obs{Out: classifyPanic(r), R: new(big.Int)}
		}
	}()
	av := t.mk(a)
	var res interpreter.Value
	if op == "neg" {
		res = av.(interpreter.NumberValue).Negate(inter)
		return Obs{"ok", toBig(res)}
	}
	bv := t.mk(b)
	switch op {
	case "add":
		res = av.(interpreter.NumberValue).Plus(inter, bv.(interpreter.NumberValue))
	case "sub":
		res = av.(interpreter.NumberValue).Minus(inter, bv.(interpreter.NumberValue))
	case "mul":
		res = av.(interpreter.NumberValue).Mul(inter, bv.(interpreter.NumberValue))
	case "div":
		res = av.(interpreter.NumberValue).Div(inter, bv.(interpreter.NumberValue))
	case "mod":
		res = av.(interpreter.NumberValue).Mod(inter, bv.(interpreter.NumberValue))
	case "satadd":
		res = av.(interpreter.NumberValue).SaturatingPlus(inter, bv.(interpreter.NumberValue))
	case "satsub":
		res = av.(interpreter.NumberValue).SaturatingMinus(inter, bv.(interpreter.NumberValue))
	case "satmul":
		res = av.(interpreter.NumberValue).SaturatingMul(inter, bv.(interpreter.NumberValue))
	case "satdiv":
		res = av.(interpreter.NumberValue).SaturatingDiv(inter, bv.(interpreter.NumberValue))
	case "and":
		res = av.(interpreter.IntegerValue).BitwiseAnd(inter, bv.(interpreter.IntegerValue))
	case "or":
		res = av.(interpreter.IntegerValue).BitwiseOr(inter, bv.(interpreter.IntegerValue))
	case "xor":
		res = av.(interpreter.IntegerValue).BitwiseXor(inter, bv.(interpreter.IntegerValue))
	case "shl":
		res = av.(interpreter.IntegerValue).BitwiseLeftShift(inter, bv.(interpreter.IntegerValue))
	case "shr":
		res = av.(interpreter.IntegerValue).BitwiseRightShift(inter, bv.(interpreter.IntegerValue))
	default:
		util.Die("direct: unknown op %s", op)
	}
	return Obs{"ok", toBig(res)}
}

// lit renders the literal of type t for the scaled integer x.
func lit(t NT, x *big.Int) string {
	if t.Scale == 0 {
		return "(" + x.String() + " as " + t.Name + ")"
	}
	s := new(big.Int).Abs(x).String()
	for len(s) <= t.Scale {
		s = "0" + s
	}
	s = s[:len(s)-t.Scale] + "." + s[len(s)-t.Scale:]
	if x.Sign() < 0 {
		s = "-" + s
	}
	return "(" + s + " as " + t.Name + ")"
}

var opSym = map[string]string{"add": "+", "sub": "-", "mul": "*", "div": "/", "mod": "%", "and": "&", "or": "|", "xor": "^", "shl": "<<", "shr": ">>"}

func expr(t NT, op string, a, b *big.Int) string {
	if op == "neg" {
		return "-" + lit(t, a)
	}
	if m, ok := satMember[op]; ok {
		return lit(t, a) + "." + m + "(" + lit(t, b) + ")"
	}
	return lit(t, a) + " " + opSym[op] + " " + lit(t, b)
}

// parse the printed form of a cadence number into the scaled integer
func parseCadence(t NT, v cadence.Value) *big.Int {
	s := v.String()
	if t.Scale > 0 {
		i := strings.IndexByte(s, '.')
		if i < 0 {
			util.Die("fixed-point value without point: %s", s)
		}
		frac := s[i+1:]
		for len(frac) < t.Scale {
			frac += "0"
		}
		if len(frac) != t.Scale {
			util.Die("fixed-point value with unexpected scale: %s", s)
		}
		s = s[:i] + frac
	}
	x, ok := new(big.Int).SetString(s, 10)
	if !ok {
		util.Die("cannot parse script result %q", s)
	}
	return x
}

func outcomeOfClass(class string) string {
	if class == "ok" {
		return "ok"
	}
	if strings.HasPrefix(class, "user:") {
		return outcomeOfErrorName(strings.TrimPrefix(class, "user:"))
	}
	return "other:" + class
}

type worker struct {
	w       *host.World
	inter   *interpreter.Interpreter
	scripts int
}

func newWorker() *worker {
	inter, err := interpreter.NewInterpreter(nil, common.ScriptLocation{}, &interpreter.Config{})
	if err != nil {
		util.Die("NewInterpreter: %v", err)
	}
	return &worker{w: host.NewWorld(), inter: inter}
}

// runExprs evaluates the expressions through one script (array result); when the script fails it
// bisects, so every expression gets its own observation.
func (wk *worker) runExprs(t NT, exprs []string, vm bool, out []Obs) {
	if len(exprs) == 0 {
		return
	}
	var sb strings.Builder
	sb.WriteString("access(all) fun main(): [AnyStruct] { return [\n")
	for i, e := range exprs {
		if i > 0 {
			sb.WriteString(",\n")
		}
		sb.WriteString(e)
	}
	sb.WriteString("\n] }")
	wk.scripts++
	r := wk.w.Script(sb.String(), vm)
	if r.Err == nil {
		arr, ok := r.Value.(cadence.Array)
		if !ok || len(arr.Values) != len(exprs) {
			util.Die("script returned %v for %d expressions", r.Value, len(exprs))
		}
		for i := range exprs {
			out[i] = Obs{"ok", parseCadence(t, arr.Values[i])}
		}
		return
	}
	if len(exprs) == 1 {
		oc := outcomeOfClass(r.Class)
		if strings.HasPrefix(oc, "other:") {
			oc = oc + " [" + firstLine(r.Err.Error()) + "] in " + exprs[0]
		}
		out[0] = Obs{oc, new(big.Int)}
		return
	}
	h := len(exprs) / 2
	wk.runExprs(t, exprs[:h], vm, out[:h])
	wk.runExprs(t, exprs[h:], vm, out[h:])
}

func firstLine(s string) string {
	for _, l := range strings.Split(s, "\n") {
		l = strings.TrimSpace(l)
		if strings.HasPrefix(l, "error:") {
			return l
		}
	}
	if i := strings.IndexByte(s, '\n'); i >= 0 {
		return s[:i]
	}
	return s
}

// runCases evaluates cases through scripts on one engine: cases predicted to succeed are batched,
// cases predicted to fail run one per script.
func (wk *worker) runCases(t NT, exprs []string, predictOK []bool, vm bool) []Obs {
	out := make([]Obs, len(exprs))
	var okIdx []int
	for i := range exprs {
		if predictOK[i] {
			okIdx = append(okIdx, i)
		}
	}
	const batch = 256
	for s := 0; s < len(okIdx); s += batch {
		e := s + batch
		if e > len(okIdx) {
			e = len(okIdx)
		}
		es := make([]string, e-s)
		for j := s; j < e; j++ {
			es[j-s] = exprs[okIdx[j]]
		}
		obs := make([]Obs, e-s)
		wk.runExprs(t, es, vm, obs)
		for j := s; j < e; j++ {
			out[okIdx[j]] = obs[j-s]
		}
	}
	for i := range exprs {
		if !predictOK[i] {
			o := make([]Obs, 1)
			wk.runExprs(t, exprs[i:i+1], vm, o)
			out[i] = o[0]
		}
	}
	return out
}

// ---------------------------------------------------------------- sema

type semaType struct {
	Name   string   `json:"name"`
	Min    *Z       `json:"min"`
	Max    *Z       `json:"max"`
	Scale  int      `json:"scale"`
	Sat    []string `json:"sat"`
	Signed bool     `json:"signed"`
}

func semaTypes() map[string]semaType {
	res := map[string]semaType{}
	signed := map[string]bool{}
	for _, t := range sema.AllSignedIntegerTypes {
		signed[t.QualifiedString()] = true
	}
	for _, t := range sema.AllSignedFixedPointTypes {
		signed[t.QualifiedString()] = true
	}
	for _, ty := range sema.AllNumberTypes {
		st := semaType{Name: ty.QualifiedString(), Sat: []string{}, Signed: signed[ty.QualifiedString()]}
		if rt, ok := ty.(sema.IntegerRangedType); ok {
			if rt.MinInt() != nil {
				z := toZ(rt.MinInt())
				st.Min = &z
			}
			if rt.MaxInt() != nil {
				z := toZ(rt.MaxInt())
				st.Max = &z
			}
		}
		if ft, ok := ty.(sema.FractionalRangedType); ok {
			st.Scale = int(ft.Scale())
			// scaled bounds: integer part * 10^scale + fractional part
			f := new(big.Int).Exp(big.NewInt(10), big.NewInt(int64(ft.Scale())), nil)
			if ft.MinInt() != nil {
				x := new(big.Int).Mul(ft.MinInt(), f)
				if ft.MinInt().Sign() < 0 {
					x.Sub(x, ft.MinFractional())
				} else {
					x.Add(x, ft.MinFractional())
				}
				z := toZ(x)
				st.Min = &z
			}
			if ft.MaxInt() != nil {
				x := new(big.Int).Mul(ft.MaxInt(), f)
				x.Add(x, ft.MaxFractional())
				z := toZ(x)
				st.Max = &z
			}
		}
		if sa, ok := ty.(sema.SaturatingArithmeticType); ok {
			// a member counts only if it is both supported and resolvable as a member of the type
			members := ty.GetMembers()
			add := func(op string, sup bool) {
				if _, has := members[satMember[op]]; sup && has {
					st.Sat = append(st.Sat, op)
				}
			}
			add("satadd", sa.SupportsSaturatingAdd())
			add("satsub", sa.SupportsSaturatingSubtract())
			add("satmul", sa.SupportsSaturatingMultiply())
			add("satdiv", sa.SupportsSaturatingDivide())
		}
		res[st.Name] = st
	}
	return res
}

func hasSat(st map[string]semaType, t string, op string) bool {
	for _, m := range st[t].Sat {
		if m == op {
			return true
		}
	}
	return false
}

func cmdSema(out string) {
	st := semaTypes()
	var names []string
	for n := range st {
		names = append(names, n)
	}
	sort.Strings(names)
	var list []semaType
	for _, n := range names {
		list = append(list, st[n])
	}
	b, _ := json.Marshal(list)
	if err := os.WriteFile(out, b, 0o644); err != nil {
		util.Die("%v", err)
	}
}

// ---------------------------------------------------------------- table (8-bit, exhaustive)

type Row struct {
	T   string `json:"t"`
	Op  string `json:"op"`
	A   int    `json:"a"`
	V   []int  `json:"v"`
	Ctl bool   `json:"ctl,omitempty"` // negative-control row injected by the check
}

const (
	eRange    = 1000
	eDivZero  = 1001
	eNegShift = 1002
)

func codeOf(o Obs) (int, string) {
	switch o.Out {
	case "ok":
		return int(o.R.Int64()), ""
	case "overflow", "underflow":
		return eRange, ""
	case "divzero":
		return eDivZero, ""
	case "negshift":
		return eNegShift, ""
	}
	return -1, o.Out
}

type Mismatch struct {
	T      string `json:"t"`
	Op     string `json:"op"`
	A      int    `json:"a"`
	B      int    `json:"b"`
	Expect int    `json:"expect"`
	Got    int    `json:"got"`
	Other  string `json:"other,omitempty"`
	Via    string `json:"via"`
	Expr   string `json:"expr,omitempty"`
	Ctl    bool   `json:"ctl,omitempty"`
}

func cmdTable(rowsPath, outPath string) {
	var rows []Row
	err := util.ReadLines(rowsPath, func(line []byte) error {
		var r Row
		if err := json.Unmarshal(line, &r); err != nil {
			return err
		}
		rows = append(rows, r)
		return nil
	})
	if err != nil {
		util.Die("reading rows: %v", err)
	}
	st := semaTypes()
	out := util.NewOut(outPath)
	defer out.Close()
	var mu sync.Mutex
	entries, directN, scriptN, scripts, skippedRows, errEntries := 0, 0, 0, 0, 0, 0
	skipped := map[string]bool{}
	nw := runtime.NumCPU()
	workers := make([]*worker, nw)
	for i := range workers {
		workers[i] = newWorker()
	}
	var wmu sync.Mutex
	free := append([]*worker(nil), workers...)
	util.Parallel(len(rows), nw, func(i int) {
		wmu.Lock()
		wk := free[len(free)-1]
		free = free[:len(free)-1]
		wmu.Unlock()
		defer func() {
			wmu.Lock()
			free = append(free, wk)
			wmu.Unlock()
		}()
		r := rows[i]
		t := typeByName(r.T)
		if _, isSat := satMember[r.Op]; isSat && !hasSat(st, r.T, r.Op) {
			mu.Lock()
			skippedRows++
			skipped[r.T+"."+r.Op] = true
			mu.Unlock()
			return
		}
		lo := 0
		if t.Signed {
			lo = -128
		}
		a := big.NewInt(int64(r.A))
		n := len(r.V)
		exprs := make([]string, n)
		pred := make([]bool, n)
		bs := make([]*big.Int, n)
		var ms []Mismatch
		ne := 0
		for k := 0; k < n; k++ {
			b := big.NewInt(int64(lo + k))
			if r.Op == "neg" {
				b = big.NewInt(0)
			}
			bs[k] = b
			exprs[k] = expr(t, r.Op, a, b)
			pred[k] = r.V[k] < 1000
			if !pred[k] {
				ne++
			}
			got, other := codeOf(direct(wk.inter, t, r.Op, a, b))
			if got != r.V[k] || other != "" {
				ms = append(ms, Mismatch{r.T, r.Op, r.A, int(b.Int64()), r.V[k], got, other, "direct", exprs[k], false})
			}
		}
		s0 := wk.scripts
		for _, vm := range []bool{false, true} {
			via := "script-interpreter"
			if vm {
				via = "script-vm"
			}
			obs := wk.runCases(t, exprs, pred, vm)
			for k := 0; k < n; k++ {
				got, other := codeOf(obs[k])
				if got != r.V[k] || other != "" {
					ms = append(ms, Mismatch{r.T, r.Op, r.A, int(bs[k].Int64()), r.V[k], got, other, via, exprs[k], false})
				}
			}
		}
		for _, m := range ms {
			m.Ctl = r.Ctl
			out.Write(m)
		}
		mu.Lock()
		entries += n
		directN += n
		scriptN += 2 * n
		errEntries += ne
		scripts += wk.scripts - s0
		mu.Unlock()
	})
	var sk []string
	for k := range skipped {
		sk = append(sk, k)
	}
	sort.Strings(sk)
	out.Write(map[string]any{"summary": true, "rows": len(rows), "entries": entries, "direct": directN, "script_evals": scriptN,
		"scripts": scripts, "error_entries": errEntries, "skipped_rows": skippedRows, "skipped_members": sk})
}

// ---------------------------------------------------------------- trace (wide types)

type Operands struct {
	T         string `json:"t"`
	Vals      []Z    `json:"vals"`
	Core      []Z    `json:"core"`
	Must      [][]Z  `json:"must"`
	ShiftMust [][]Z  `json:"shiftmust"`
	Pairs     [][]Z  `json:"pairs"`
	Amounts   []Z    `json:"amounts"`
}

type Event struct {
	K    int      `json:"k"`
	T    string   `json:"t"`
	Op   string   `json:"op"`
	A    Z        `json:"a"`
	B    Z        `json:"b"`
	Out  string   `json:"out"`
	R    Z        `json:"r"`
	Out2 string   `json:"out2"`
	R2   Z        `json:"r2"`
	Via  []string `json:"via"`
	Expr string   `json:"expr"`
}

var propOps = map[string][]string{
	"C11": {"add", "sub", "mul", "divmod", "neg"},
	"C12": {"add", "sub", "mul", "divmod"},
	"C13": {"satadd", "satsub", "satmul", "satdiv"},
	"C14": {"and", "or", "xor", "shl", "shr"},
}

func propHasType(prop string, t NT) bool {
	switch prop {
	case "C11":
		return !t.Word && t.Scale == 0
	case "C12":
		return t.Word
	case "C13":
		return !t.Word
	case "C14":
		return t.Scale == 0
	}
	return false
}

func sortBig(xs []*big.Int) {
	sort.Slice(xs, func(i, j int) bool { return xs[i].Cmp(xs[j]) < 0 })
}

func zsToBig(zs []Z) []*big.Int {
	out := make([]*big.Int, len(zs))
	for i, z := range zs {
		out[i] = fromZ(z)
	}
	sortBig(out)
	return out
}

// random value of the type: uniformly chosen bit length, random bits, random sign
func randVal(rng *rand.Rand, t NT) *big.Int {
	width := t.Bits
	if width == 0 {
		width = 200
	}
	for {
		n := rng.Intn(width + 1)
		x := new(big.Int)
		if n > 0 {
			x.Rand(rng, pow2(n))
		}
		if t.Signed && rng.Intn(2) == 0 {
			x.Neg(x)
		}
		if t.inRange(x) {
			return x
		}
	}
}

type pair struct{ a, b *big.Int }

type caseT struct {
	op   string
	a, b *big.Int
}

func cmdTrace(prop, opsPath, outPath string, pairsPerType int) {
	var ops []Operands
	err := util.ReadLines(opsPath, func(line []byte) error {
		var o Operands
		if err := json.Unmarshal(line, &o); err != nil {
			return err
		}
		ops = append(ops, o)
		return nil
	})
	if err != nil {
		util.Die("reading operands: %v", err)
	}
	sort.Slice(ops, func(i, j int) bool { return ops[i].T < ops[j].T })
	st := semaTypes()
	seed := util.Seed()
	nw := runtime.NumCPU()

	// work units: (type, slice of cases)
	type unit struct {
		t     NT
		cases []caseT
	}
	var units []unit
	declared := map[string][]string{}
	for ti, o := range ops {
		t := typeByName(o.T)
		if !propHasType(prop, t) {
			continue
		}
		rng := rand.New(rand.NewSource(seed*1000003 + int64(ti)*7919 + int64(len(prop))))
		vals := zsToBig(o.Vals)
		core := zsToBig(o.Core)
		amounts := zsToBig(o.Amounts)
		// --- operand pairs: spec pairs, core x core, then seeded random
		var must, spec, cross []pair
		sortPairs := func(ps []pair) {
			sort.Slice(ps, func(i, j int) bool {
				if c := ps[i].a.Cmp(ps[j].a); c != 0 {
					return c < 0
				}
				return ps[i].b.Cmp(ps[j].b) < 0
			})
		}
		for _, p := range o.Must {
			must = append(must, pair{fromZ(p[0]), fromZ(p[1])})
		}
		for _, p := range o.Pairs {
			spec = append(spec, pair{fromZ(p[0]), fromZ(p[1])})
		}
		sortPairs(must)
		sortPairs(spec)
		for _, a := range core {
			for _, b := range core {
				cross = append(cross, pair{a, b})
			}
		}
		rng.Shuffle(len(spec), func(i, j int) { spec[i], spec[j] = spec[j], spec[i] })
		rng.Shuffle(len(cross), func(i, j int) { cross[i], cross[j] = cross[j], cross[i] })
		// the limit pairs always; of the rest of the budget 35% product-straddling pairs, 35% core cross
		// product, the remainder random
		pairs := append([]pair(nil), must...)
		take := func(src []pair, n int) {
			if n > len(src) {
				n = len(src)
			}
			pairs = append(pairs, src[:n]...)
		}
		budget := pairsPerType
		if util.Tier() == "thorough" {
			take(spec, len(spec)) // every spec pair
			take(cross, pairsPerType)
			budget = len(pairs) - len(must) + pairsPerType/2
		} else {
			take(spec, pairsPerType*35/100)
			take(cross, pairsPerType*35/100)
		}
		for target := len(must) + budget; len(pairs) < target; {
			var a, b *big.Int
			switch rng.Intn(4) {
			case 0:
				a, b = randVal(rng, t), randVal(rng, t)
			case 1:
				a, b = vals[rng.Intn(len(vals))], randVal(rng, t)
			case 2:
				a, b = randVal(rng, t), vals[rng.Intn(len(vals))]
			default:
				a, b = vals[rng.Intn(len(vals))], vals[rng.Intn(len(vals))]
			}
			pairs = append(pairs, pair{a, b})
		}
		var cases []caseT
		for _, op := range propOps[prop] {
			if _, isSat := satMember[op]; isSat {
				if !hasSat(st, t.Name, op) {
					continue
				}
				declared[t.Name] = append(declared[t.Name], op)
			}
			if t.Scale > 0 && prop != "C13" {
				continue
			}
			switch op {
			case "neg":
				if !t.Signed {
					continue
				}
				for _, a := range vals {
					cases = append(cases, caseT{op, a, zero})
				}
				for i := 0; i < pairsPerType/8; i++ {
					cases = append(cases, caseT{op, randVal(rng, t), zero})
				}
			case "shl", "shr":
				// every spec amount with a sample of left operands, and random small amounts
				width := t.Bits
				if width == 0 {
					width = 200
				}
				nLeft := pairsPerType / (len(amounts) + 1)
				if nLeft < 4 {
					nLeft = 4
				}
				// spec (operand, amount) pairs around the machine-word boundaries: always
				for _, p := range o.ShiftMust {
					cases = append(cases, caseT{op, fromZ(p[0]), fromZ(p[1])})
				}
				for _, b := range amounts {
					for i := 0; i < nLeft; i++ {
						var a *big.Int
						if i%2 == 0 {
							a = vals[rng.Intn(len(vals))]
						} else {
							a = randVal(rng, t)
						}
						cases = append(cases, caseT{op, a, b})
					}
				}
				for i := 0; i < pairsPerType/2; i++ {
					b := big.NewInt(int64(rng.Intn(width + 2)))
					if !t.inRange(b) {
						continue
					}
					cases = append(cases, caseT{op, randVal(rng, t), b})
				}
			default:
				for _, p := range pairs {
					cases = append(cases, caseT{op, p.a, p.b})
				}
			}
		}
		// drop repeated cases (the pair sources overlap)
		{
			seen := map[string]bool{}
			uniq := cases[:0]
			for _, c := range cases {
				k := c.op + "|" + c.a.String() + "|" + c.b.String()
				if !seen[k] {
					seen[k] = true
					uniq = append(uniq, c)
				}
			}
			cases = uniq
		}
		// split into units of ~2000 cases for parallelism
		for s := 0; s < len(cases); s += 2000 {
			e := s + 2000
			if e > len(cases) {
				e = len(cases)
			}
			units = append(units, unit{t, cases[s:e]})
		}
	}

	results := make([][]Event, len(units))
	scriptsPer := make([]int, len(units))
	obsPer := make([]int, len(units))
	util.Parallel(len(units), nw, func(ui int) {
		wk := newWorker()
		u := units[ui]
		t := u.t
		// each case expands to one or two calls
		type call struct{ op string }
		n := len(u.cases)
		ops1 := make([]string, n) // first call op
		ops2 := make([]string, n) // second call op or ""
		for i, c := range u.cases {
			switch c.op {
			case "divmod":
				ops1[i], ops2[i] = "div", "mod"
			case "satdiv":
				ops1[i] = "satdiv"
				if t.Scale == 0 {
					ops2[i] = "mod"
				}
			default:
				ops1[i] = c.op
			}
		}
		d1 := make([]Obs, n)
		d2 := make([]Obs, n)
		var exprs []string
		var pred []bool
		idx1 := make([]int, n)
		idx2 := make([]int, n)
		for i, c := range u.cases {
			d1[i] = direct(wk.inter, t, ops1[i], c.a, c.b)
			idx1[i] = len(exprs)
			exprs = append(exprs, expr(t, ops1[i], c.a, c.b))
			pred = append(pred, d1[i].Out == "ok")
			idx2[i] = -1
			if ops2[i] != "" {
				d2[i] = direct(wk.inter, t, ops2[i], c.a, c.b)
				idx2[i] = len(exprs)
				exprs = append(exprs, expr(t, ops2[i], c.a, c.b))
				pred = append(pred, d2[i].Out == "ok")
			}
		}
		si := wk.runCases(t, exprs, pred, false)
		sv := wk.runCases(t, exprs, pred, true)
		var evs []Event
		for i, c := range u.cases {
			type ob struct {
				o1, o2 Obs
				via    string
			}
			all := []ob{{d1[i], d2[i], "direct"}}
			get2 := func(s []Obs) Obs {
				if idx2[i] < 0 {
					return Obs{}
				}
				return s[idx2[i]]
			}
			all = append(all, ob{si[idx1[i]], get2(si), "script-interpreter"}, ob{sv[idx1[i]], get2(sv), "script-vm"})
			seen := map[string]int{}
			for _, o := range all {
				key := o.o1.key() + "|" + o.o2.key()
				if j, ok := seen[key]; ok {
					evs[j].Via = append(evs[j].Via, o.via)
					continue
				}
				ev := Event{T: t.Name, Op: c.op, A: toZ(c.a), B: toZ(c.b), Out: o.o1.Out, R: toZ(o.o1.R), Via: []string{o.via},
					Expr: exprs[idx1[i]], R2: toZ(zero)}
				if idx2[i] >= 0 {
					ev.Out2 = o.o2.Out
					ev.R2 = toZ(o.o2.R)
				}
				seen[key] = len(evs)
				evs = append(evs, ev)
			}
		}
		results[ui] = evs
		scriptsPer[ui] = wk.scripts
		obsPer[ui] = 3 * len(exprs)
	})
	out := util.NewOut(outPath)
	defer out.Close()
	k, scripts, obs, cases := 0, 0, 0, 0
	perType := map[string]int{}
	for ui, evs := range results {
		for _, ev := range evs {
			k++
			ev.K = k
			out.Write(ev)
			perType[ev.T+"."+ev.Op]++
		}
		scripts += scriptsPer[ui]
		obs += obsPer[ui]
		cases += len(units[ui].cases)
	}
	out.Write(map[string]any{"summary": true, "events": k, "cases": cases, "observations": obs, "scripts": scripts,
		"per_type_op": perType, "declared_sat": declared})
}

// ---------------------------------------------------------------- meter (C32)

type recGauge struct{ big uint64 }

func (g *recGauge) MeterMemory(u common.MemoryUsage) error {
	if u.Kind == common.MemoryKindBigInt {
		g.big += u.Amount
	}
	return nil
}

type Desc struct {
	W    int    `json:"w"`
	Kind string `json:"kind"`
	Neg  bool   `json:"neg"`
}

type MeterRow struct {
	T  string `json:"t"`
	Op string `json:"op"`
	A  Desc   `json:"a"`
	Bs []Desc `json:"bs"`
	Ns []int  `json:"ns"`
}

type MeterEvent struct {
	K       int    `json:"k"`
	T       string `json:"t"`
	Op      string `json:"op"`
	A       Desc   `json:"a"`
	B       Desc   `json:"b"`
	N       int    `json:"n"`
	WA      int    `json:"wa"`
	WB      int    `json:"wb"`
	Out     string `json:"out"`
	Metered Z      `json:"metered"`
	Words   int    `json:"words"`
	Cmp     int    `json:"cmp"` // sign of a - b (signed comparison of the operands)
	AZ      Z      `json:"az"`  // operands and result as integers (arithmetic / bitwise operations)
	BZ      Z      `json:"bz"`
	RZ      Z      `json:"rz"`
	Abits   int    `json:"abits"` // bit length of the left operand (shifts)
}

// materialise: the value described by (w words, kind, sign)
//
//	max: 2^(64w) - 1 (largest w-word magnitude)   min: 2^(64(w-1)) (smallest)   rnd: seeded random w-word magnitude
func materialise(d Desc, rng *rand.Rand) *big.Int {
	if d.W == 0 {
		return new(big.Int)
	}
	var x *big.Int
	switch d.Kind {
	case "max":
		x = new(big.Int).Sub(pow2(64*d.W), one)
	case "min":
		x = pow2(64 * (d.W - 1))
	case "rnd":
		// below 2^(64w-1) (in range for the signed fixed-width types), top word non-zero
		x = new(big.Int).Rand(rng, pow2(64*d.W-1))
		x.SetBit(x, 64*d.W-2-rng.Intn(62), 1)
	default:
		util.Die("unknown operand kind %q", d.Kind)
	}
	if d.Neg {
		x.Neg(x)
	}
	return x
}

func cmdMeter(rowsPath, outPath string) {
	var rows []MeterRow
	err := util.ReadLines(rowsPath, func(line []byte) error {
		var r MeterRow
		if err := json.Unmarshal(line, &r); err != nil {
			return err
		}
		rows = append(rows, r)
		return nil
	})
	if err != nil {
		util.Die("reading rows: %v", err)
	}
	sort.SliceStable(rows, func(i, j int) bool {
		ki := fmt.Sprintf("%s|%s|%03d|%s|%v", rows[i].T, rows[i].Op, rows[i].A.W, rows[i].A.Kind, rows[i].A.Neg)
		kj := fmt.Sprintf("%s|%s|%03d|%s|%v", rows[j].T, rows[j].Op, rows[j].A.W, rows[j].A.Kind, rows[j].A.Neg)
		return ki < kj
	})
	seed := util.Seed()
	results := make([][]MeterEvent, len(rows))
	util.Parallel(len(rows), runtime.NumCPU(), func(ri int) {
		row := rows[ri]
		t := typeByName(row.T)
		rng := rand.New(rand.NewSource(seed*999983 + int64(ri)))
		g := &recGauge{}
		inter, err := interpreter.NewInterpreter(nil, common.ScriptLocation{}, &interpreter.Config{MemoryGauge: g})
		if err != nil {
			util.Die("NewInterpreter: %v", err)
		}
		a := materialise(row.A, rng)
		if !t.inRange(a) {
			util.Die("descriptor %+v is outside %s", row.A, row.T)
		}
		var evs []MeterEvent
		run := func(b *big.Int, bd Desc, n int) {
			if !t.inRange(b) {
				util.Die("descriptor %+v / amount %d is outside %s", bd, n, row.T)
			}
			ev := MeterEvent{T: row.T, Op: row.Op, A: row.A, B: bd, N: n, WA: len(a.Bits()), WB: len(b.Bits()), Cmp: a.Cmp(b),
				AZ: toZ(zero), BZ: toZ(zero), RZ: toZ(zero), Abits: a.BitLen()}
			isShift := row.Op == "shl" || row.Op == "shr"
			if !isShift {
				ev.AZ, ev.BZ = toZ(a), toZ(b)
			}
			func() {
				defer func() {
					if r := recover(); r != nil {
						ev.Out = classifyPanic(r)
						ev.Metered = toZ(new(big.Int).SetUint64(g.big))
					}
				}()
				av, bv := t.mk(a), t.mk(b)
				g.big = 0
				var res interpreter.Value
				switch row.Op {
				case "add":
					res = av.(interpreter.NumberValue).Plus(inter, bv.(interpreter.NumberValue))
				case "sub":
					res = av.(interpreter.NumberValue).Minus(inter, bv.(interpreter.NumberValue))
				case "mul":
					res = av.(interpreter.NumberValue).Mul(inter, bv.(interpreter.NumberValue))
				case "div":
					res = av.(interpreter.NumberValue).Div(inter, bv.(interpreter.NumberValue))
				case "mod":
					res = av.(interpreter.NumberValue).Mod(inter, bv.(interpreter.NumberValue))
				case "neg":
					res = av.(interpreter.NumberValue).Negate(inter)
				case "and":
					res = av.(interpreter.IntegerValue).BitwiseAnd(inter, bv.(interpreter.IntegerValue))
				case "or":
					res = av.(interpreter.IntegerValue).BitwiseOr(inter, bv.(interpreter.IntegerValue))
				case "xor":
					res = av.(interpreter.IntegerValue).BitwiseXor(inter, bv.(interpreter.IntegerValue))
				case "shl":
					res = av.(interpreter.IntegerValue).BitwiseLeftShift(inter, bv.(interpreter.IntegerValue))
				case "shr":
					res = av.(interpreter.IntegerValue).BitwiseRightShift(inter, bv.(interpreter.IntegerValue))
				default:
					util.Die("meter: unknown op %s", row.Op)
				}
				m := g.big
				ev.Out = "ok"
				ev.Metered = toZ(new(big.Int).SetUint64(m))
				ev.Words = len(toBigRaw(res).Bits())
				if !isShift {
					ev.RZ = toZ(toBigRaw(res))
				}
			}()
			evs = append(evs, ev)
		}
		if row.Op == "shl" || row.Op == "shr" {
			for _, n := range row.Ns {
				run(big.NewInt(int64(n)), Desc{Kind: "amount"}, n)
			}
		} else if row.Op == "neg" {
			run(new(big.Int), Desc{Kind: "none"}, 0)
		} else {
			for _, bd := range row.Bs {
				run(materialise(bd, rng), bd, 0)
			}
		}
		results[ri] = evs
	})
	out := util.NewOut(outPath)
	defer out.Close()
	k := 0
	for _, evs := range results {
		for _, ev := range evs {
			k++
			ev.K = k
			if ev.Metered.M == nil {
				ev.Metered = toZ(zero)
			}
			out.Write(ev)
		}
	}
	out.Write(map[string]any{"summary": true, "events": k, "rows": len(rows)})
}

// the result's own big.Int (no copy), to read len(Bits())
func toBigRaw(v interpreter.Value) *big.Int {
	switch v := v.(type) {
	case interpreter.IntValue:
		return v.BigInt
	case interpreter.UIntValue:
		return v.BigInt
	case interpreter.Int128Value:
		return v.BigInt
	case interpreter.Int256Value:
		return v.BigInt
	case interpreter.UInt128Value:
		return v.BigInt
	case interpreter.UInt256Value:
		return v.BigInt
	case interpreter.Word128Value:
		return v.BigInt
	case interpreter.Word256Value:
		return v.BigInt
	}
	util.Die("toBigRaw: %T is not big.Int backed", v)
	return nil
}

// cmdOne executes one case (decimal operands) the three ways and writes the observed events (replay).
func cmdOne(tn, op, as, bs, outPath string) {
	t := typeByName(tn)
	a, ok1 := new(big.Int).SetString(as, 10)
	b, ok2 := new(big.Int).SetString(bs, 10)
	if !ok1 || !ok2 {
		util.Die("bad operands %q %q", as, bs)
	}
	wk := newWorker()
	ops := []string{op}
	switch op {
	case "divmod", "div", "mod":
		op, ops = "divmod", []string{"div", "mod"}
	case "satdiv":
		if t.Scale == 0 {
			ops = []string{"satdiv", "mod"}
		}
	}
	out := util.NewOut(outPath)
	defer out.Close()
	k := 0
	for _, via := range []string{"direct", "script-interpreter", "script-vm"} {
		obs := make([]Obs, 2)
		for i, o := range ops {
			if via == "direct" {
				obs[i] = direct(wk.inter, t, o, a, b)
			} else {
				r := make([]Obs, 1)
				wk.runExprs(t, []string{expr(t, o, a, b)}, via == "script-vm", r)
				obs[i] = r[0]
			}
		}
		k++
		ev := Event{K: k, T: t.Name, Op: op, A: toZ(a), B: toZ(b), Out: obs[0].Out, R: toZ(obs[0].R), Via: []string{via},
			Expr: expr(t, ops[0], a, b), R2: toZ(zero)}
		if len(ops) == 2 {
			ev.Out2 = obs[1].Out
			ev.R2 = toZ(obs[1].R)
		}
		out.Write(ev)
	}
}

func main() {
	if len(os.Args) < 2 {
		util.Die("usage: num sema|table|trace|meter ...")
	}
	switch os.Args[1] {
	case "sema":
		cmdSema(os.Args[2])
	case "table":
		cmdTable(os.Args[3], os.Args[4])
	case "trace":
		n, err := strconv.Atoi(os.Args[5])
		if err != nil {
			util.Die("pairsPerType: %v", err)
		}
		cmdTrace(os.Args[2], os.Args[3], os.Args[4], n)
	case "meter":
		cmdMeter(os.Args[2], os.Args[3])
	case "one":
		cmdOne(os.Args[2], os.Args[3], os.Args[4], os.Args[5], os.Args[6])
	default:
		util.Die("unknown sub-command %s", os.Args[1])
	}
}
