// limits: runs the unbounded program shapes of spec/system/LimitShapes.tla with finite limits (C30).
//
//	limits run <shapes.json> <results.ndjson> [engines]     run every shape (per-shape wall-clock deadline)
//	limits one <shape-json> <engine>                        run one shape alone (used to re-run deadline misses)
//
// Every run records the gauge stream in run-length form (accepted meterings, the refusal, meterings
// after the refusal) for validation against Metering.tla, the outcome class and the recursion depth reached.
package main

import (
	"encoding/json"
	"errors"
	"fmt"
	"os"
	"strconv"
	"strings"
	"sync"
	"time"

	"github.com/onflow/cadence/common"
	"github.com/onflow/cadence/runtime"

	"verifharness/host"
	"verifharness/util"
)

type Shape struct {
	Loop   string   `json:"loop"`
	Body   string   `json:"body"`
	Limit  string   `json:"limit"`
	Expect []string `json:"expect"`
}

type Ev struct {
	Ev  string `json:"ev"`
	N   int    `json:"n"`
	Sum uint64 `json:"sum"`
	G   string `json:"g,omitempty"`
	Ok  bool   `json:"ok"`
}

type Result struct {
	Shape    Shape   `json:"shape"`
	Engine   string  `json:"engine"`
	Outcome  string  `json:"outcome"` // computation | memory | depth | ok | timeout | other:<class>
	Class    string  `json:"class"`
	Err      string  `json:"err"`
	Wall     float64 `json:"wall"`
	MaxDepth int     `json:"maxdepth"`
	CompLim  uint64  `json:"complimit"`
	MemLim   uint64  `json:"memlimit"`
	DepthLim uint64  `json:"depthlimit"`
	Trace    []Ev    `json:"trace"`
	Src      string  `json:"src"`
}

const helperContract = `
access(all) contract E {
  access(all) event Ping(n: Int)
  access(all) fun ping(_ n: Int) { emit Ping(n: n) }
  access(all) struct S { access(all) let id: Int; init() { self.id = 1 } }
  access(all) attachment A for S { access(all) fun hello(): Int { return 1 } }
  access(all) fun mkS(): S { return attach A() to S() }
}`

func body(b string) string {
	switch b {
	case "empty":
		return ""
	case "arith":
		return "n = n + 1"
	case "concat":
		return `s = s.concat("x")`
	case "append":
		return "xs.append(n)"
	case "dict-insert":
		return "d[n] = n; n = n + 1"
	case "call":
		return "n = helper(n)"
	case "resource":
		return "let r <- create R(); destroy r"
	case "log":
		return `log("x")`
	case "emit":
		return "E.ping(n)"
	case "optional":
		return "let o: Int? = n; if let v = o { n = v + 1 }"
	case "cast":
		return "let a: AnyStruct = n; if let v = a as? Int { n = v + 1 }"
	case "ref":
		return "let r = &xs as &[Int]; n = n + r.length"
	case "optchain-nil":
		return "let q: Q? = nil; let t = q?.touch(); if t != nil { n = n + 1 }"
	case "optchain-some":
		return "let q: Q? = Q(); n = n + (q?.touch() ?? 0)"
	case "bound-call":
		return "let bf = Q().touch; n = n + bf()"
	case "skipped-call":
		return "if n < 0 && helper(n) > 0 { n = n + 1 }"
	}
	panic("body " + b)
}

const locals = `var n = 0; var s = ""; let xs: [Int] = []; let d: {Int: Int} = {}`
const prelude = `import E from 0x1
access(all) resource R {}
access(all) fun helper(_ x: Int): Int { return x + 1 }
access(all) struct Q { access(all) view fun touch(): Int { return 1 } }
`

func render(sh Shape) string {
	b := body(sh.Body)
	depthLog := ""
	if sh.Limit == "depth" || sh.Limit == "computation-large" {
		depthLog = "log(k); "
	}
	switch sh.Loop {
	case "while":
		return prelude + fmt.Sprintf("access(all) fun main() { %s; while true { %s } }", locals, b)
	case "for-growing-array":
		return prelude + fmt.Sprintf("access(all) fun main() { %s; let ys = [1]; var i = 0; while i < ys.length { ys.append(1); i = i + 1; %s } }", locals, b)
	case "for-range-huge":
		return prelude + "access(all) fun main() { var c = 0; for i in InclusiveRange(0, 1000000000000) { c = c + 1 } }"
	case "recursion":
		return prelude + fmt.Sprintf("access(all) fun rec(_ k: Int): Int { %s; %s%s; return rec(k + 1) + 1 }\naccess(all) fun main() { rec(1) }", locals, depthLog, b)
	case "mutual-recursion":
		return prelude + fmt.Sprintf("access(all) fun f(_ k: Int): Int { %s; %s%s; return g(k + 1) + 1 }\naccess(all) fun g(_ k: Int): Int { %sreturn f(k + 1) + 1 }\naccess(all) fun main() { f(1) }", locals, depthLog, b, depthLog)
	case "closure-recursion":
		return prelude + fmt.Sprintf("access(all) fun main() { var f: fun(Int): Int = fun (k: Int): Int { return 0 }; f = fun (k: Int): Int { %s; %s%s; return f(k + 1) + 1 }; f(1) }", locals, depthLog, b)
	case "method-recursion":
		return prelude + fmt.Sprintf("access(all) struct M { access(all) fun m(_ k: Int): Int { %s; %s%s; return self.m(k + 1) + 1 } }\naccess(all) fun main() { M().m(1) }", locals, depthLog, b)
	case "interface-default-recursion":
		return prelude + fmt.Sprintf("access(all) struct interface I { access(all) fun m(_ k: Int): Int { %s; %s%s; return self.m(k + 1) + 1 } }\naccess(all) struct M: I {}\naccess(all) fun main() { M().m(1) }", locals, depthLog, b)
	case "map-callback-recursion":
		return prelude + fmt.Sprintf("access(all) fun rec(_ k: Int): Int { %s; %s%s; return [k].map(fun (x: Int): Int { return rec(x + 1) + 1 })[0] }\naccess(all) fun main() { rec(1) }", locals, depthLog, b)
	case "optional-map-recursion":
		return prelude + fmt.Sprintf("access(all) fun rec(_ k: Int): Int { %s; %s%s; let ok: Int? = k; return ok.map(fun (x: Int): Int { return rec(x + 1) + 1 })! }\naccess(all) fun main() { rec(1) }", locals, depthLog, b)
	case "forEachKey-recursion":
		return prelude + fmt.Sprintf("access(all) fun rec(_ k: Int) { %s; %s%s; let dd = {k: k}; dd.forEachKey(fun (key: Int): Bool { rec(key + 1); return true }) }\naccess(all) fun main() { rec(1) }", locals, depthLog, b)
	case "filter-callback-recursion":
		return prelude + fmt.Sprintf("access(all) view fun rec(_ k: Int): Int { var n = 0; %s; return [k].filter(view fun (x: Int): Bool { return rec(x + 1) > 0 }).length }\naccess(all) fun main() { rec(1) }", pureBody(sh.Body))
	case "constructor-recursion":
		return prelude + fmt.Sprintf("access(all) struct Node { access(all) let depth: Int; init(_ k: Int) { %s; %s%s; self.depth = Node(k + 1).depth + 1 } }\naccess(all) fun main() { Node(1) }", locals, depthLog, b)
	case "condition-recursion":
		return prelude + fmt.Sprintf("access(all) view fun c(_ k: Int): Int { pre { c(k + 1) > 0 } return 1 }\naccess(all) fun main() { %s; %s; c(1) }", locals, b)
	case "map-callback":
		return prelude + fmt.Sprintf("access(all) fun main() { let zs = [1, 2, 3]; zs.map(fun (x: Int): Int { %s; while true { %s }; return x }) }", locals, b)
	case "filter-callback":
		return prelude + fmt.Sprintf("access(all) fun main() { let zs = [1, 2, 3]; zs.filter(view fun (x: Int): Bool { var n = 0; while true { %s }; return true }) }", pureBody(sh.Body))
	case "forEachKey-callback":
		return prelude + fmt.Sprintf("access(all) fun main() { let dd = {1: 1, 2: 2}; dd.forEachKey(fun (key: Int): Bool { %s; while true { %s }; return true }) }", locals, b)
	case "forEachStored-callback":
		return prelude + fmt.Sprintf("access(all) fun main() { let a = getAuthAccount<auth(Storage) &Account>(0x2); a.storage.forEachStored(fun (p: StoragePath, t: Type): Bool { %s; while true { %s }; return true }) }", locals, b)
	case "forEachController-callback":
		return prelude + fmt.Sprintf("access(all) fun main() { let a = getAuthAccount<auth(Capabilities) &Account>(0x2); a.capabilities.storage.forEachController(forPath: /storage/s, fun (c: &StorageCapabilityController): Bool { %s; while true { %s }; return true }) }", locals, b)
	case "forEachAttachment-callback":
		return prelude + fmt.Sprintf("access(all) fun main() { let v = E.mkS(); v.forEachAttachment(fun (a: &AnyStructAttachment) { %s; while true { %s } }) }", locals, b)
	case "string-doubling":
		return prelude + `access(all) fun main() { var s = "ab"; while true { s = s.concat(s) } }`
	case "array-doubling":
		return prelude + `access(all) fun main() { var xs = [1]; while true { xs = xs.concat(xs) } }`
	case "dict-growing":
		return prelude + `access(all) fun main() { var i = 0; let d: {Int: String} = {}; while true { d[i] = "value"; i = i + 1 } }`
	case "nested-value":
		return prelude + `access(all) fun main() { var v: [AnyStruct] = [1]; while true { v = [v] } }`
	}
	panic("loop " + sh.Loop)
}

func pureBody(b string) string {
	switch b {
	case "arith":
		return "n = n + 1"
	case "optional":
		return "let o: Int? = n; if let v = o { n = v + 1 }"
	case "cast":
		return "let a: AnyStruct = n; if let v = a as? Int { n = v + 1 }"
	case "optchain-nil":
		return "let q: Q? = nil; let t = q?.touch(); if t != nil { n = n + 1 }"
	}
	return ""
}

type limitErr struct{ what string }

func (e limitErr) Error() string { return e.what + " limit exceeded" }

// recorder implements both gauges with limits and records the stream in run-length form.
type recorder struct {
	mu                sync.Mutex
	compLim, memLim   uint64
	compUsed, memUsed uint64
	tripped           bool
	trace             []Ev
	curN              int
	curSum            uint64
	after             int
}

func (r *recorder) flush() {
	if r.curN > 0 {
		r.trace = append(r.trace, Ev{Ev: "MeterBlock", N: r.curN, Sum: r.curSum, Ok: true})
		r.curN, r.curSum = 0, 0
	}
}

func (r *recorder) meter(g string, amount uint64) error {
	r.mu.Lock()
	defer r.mu.Unlock()
	if r.tripped {
		r.after++
		return limitErr{g}
	}
	used, lim := &r.compUsed, r.compLim
	if g == "memory" {
		used, lim = &r.memUsed, r.memLim
	}
	if lim > 0 && *used+amount > lim {
		r.flush()
		r.tripped = true
		r.trace = append(r.trace, Ev{Ev: "Refuse", N: 1, Sum: amount, G: g})
		return limitErr{g}
	}
	*used += amount
	r.curN++
	if amount == 0 {
		// zero-amount meterings do not advance the bound; recorded separately
		r.trace = append(r.trace, Ev{Ev: "MeterZero", G: g, Ok: true})
		r.curN--
		return nil
	}
	r.curSum += amount
	return nil
}

func limitsOf(sh Shape) (comp, mem, depth uint64) {
	switch sh.Limit {
	case "computation-small":
		return 2000, 0, 150
	case "computation-large":
		return 150000, 0, 150
	case "memory":
		return 3000000, 400000, 150
	case "depth":
		return 3000000, 0, 60
	case "computation+memory":
		return 60000, 1500000, 150
	}
	panic("limit " + sh.Limit)
}

func runShape(sh Shape, engine string) Result {
	comp, mem, depth := limitsOf(sh)
	cfg := runtime.Config{AtreeValidationEnabled: false, StackDepthLimit: depth}
	w := host.NewWorldWithConfig(cfg)
	if err := w.Deploy(host.Addr(1), "E", helperContract); err != nil {
		util.Die("deploy helper: %v", err)
	}
	setup := w.Tx(`transaction { prepare(a: auth(Storage, Capabilities) &Account) { a.storage.save(1, to: /storage/s); a.capabilities.storage.issue<&Int>(/storage/s) } }`,
		[]common.Address{host.Addr(2)}, false)
	if setup.Err != nil {
		util.Die("setup: %v", setup.Err)
	}
	rec := &recorder{compLim: comp, memLim: mem}
	rec.trace = append(rec.trace, Ev{Ev: "Begin", Ok: true})
	w.ComputationGauge = common.FunctionComputationGauge(func(u common.ComputationUsage) error { return rec.meter("computation", u.Intensity) })
	w.MemoryGauge = common.FunctionMemoryGauge(func(u common.MemoryUsage) error { return rec.meter("memory", u.Amount) })
	src := render(sh)
	t0 := time.Now()
	r := w.ScriptE(src, engine)
	res := Result{Shape: sh, Engine: engine, Class: r.Class, Wall: time.Since(t0).Seconds(), Src: src, CompLim: comp, MemLim: mem, DepthLim: depth}
	rec.mu.Lock()
	rec.flush()
	if rec.after > 0 {
		rec.trace = append(rec.trace, Ev{Ev: "MeterAfter", N: rec.after})
	}
	res.Trace = rec.trace
	rec.mu.Unlock()
	if r.Err != nil {
		res.Err = r.Err.Error()
		if len(res.Err) > 500 {
			res.Err = res.Err[:500]
		}
	}
	for _, l := range r.Logs {
		if k, err := strconv.Atoi(l); err == nil && k > res.MaxDepth {
			res.MaxDepth = k
		}
	}
	switch {
	case r.Err == nil:
		res.Outcome = "ok"
	case strings.Contains(r.Class, "CallStackLimitExceeded"):
		res.Outcome = "depth"
	case strings.Contains(r.Class, "ComputationMeteringError"):
		res.Outcome = "computation"
	case strings.Contains(r.Class, "MemoryMeteringError"):
		res.Outcome = "memory"
	default:
		res.Outcome = "other:" + r.Class
		// a rendered shape the parser or checker rejects is an error of this driver, never a verdict
		var pce *runtime.ParsingCheckingError
		if errors.As(r.Err, &pce) {
			res.Class = "CheckerRejected:" + r.Class
		}
	}
	res.Trace = append(res.Trace, Ev{Ev: "End", Ok: r.Err == nil, G: res.Outcome})
	return res
}

func main() {
	if len(os.Args) >= 4 && os.Args[1] == "one" {
		var sh Shape
		if err := json.Unmarshal([]byte(os.Args[2]), &sh); err != nil {
			util.Die("%v", err)
		}
		b, _ := json.Marshal(runShape(sh, os.Args[3]))
		fmt.Println(string(b))
		return
	}
	if len(os.Args) < 4 || os.Args[1] != "run" {
		util.Die("usage: limits run shapes.json results.ndjson [engines] | limits one shape engine")
	}
	var in struct {
		Shapes []Shape `json:"shapes"`
	}
	data, err := os.ReadFile(os.Args[2])
	if err != nil {
		util.Die("%v", err)
	}
	if err := json.Unmarshal(data, &in); err != nil {
		util.Die("%v", err)
	}
	engines := []string{"interp", "vm"}
	if len(os.Args) > 4 {
		engines = strings.Split(os.Args[4], ",")
	}
	out := util.NewOut(os.Args[3])
	type job struct {
		sh  Shape
		eng string
	}
	var jobs []job
	for _, sh := range in.Shapes {
		for _, e := range engines {
			jobs = append(jobs, job{sh, e})
		}
	}
	deadline := 60 * time.Second
	util.Parallel(len(jobs), 12, func(i int) {
		j := jobs[i]
		ch := make(chan Result, 1)
		go func() { ch <- runShape(j.sh, j.eng) }()
		select {
		case r := <-ch:
			out.Write(r)
		case <-time.After(deadline):
			out.Write(Result{Shape: j.sh, Engine: j.eng, Outcome: "timeout", Wall: deadline.Seconds(), Src: render(j.sh)})
		}
	})
	out.Write(map[string]any{"summary": true, "runs": len(jobs)})
	out.Close()
	os.Exit(0) // leaked goroutines of deadline misses must not keep the process alive
}
