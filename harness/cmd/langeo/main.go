// langeo: C52 — evaluation order and short-circuiting.
//
//	langeo <cases.ndjson> <results.ndjson>
//
// Each case is one line of the table printed by spec/lang/EvalOrder.tla: a numbered term whose
// leaves are logging calls, and the log / value / abort the specification's big-step evaluator
// predicts. The driver renders the term as a Cadence script, runs it on the interpreter and on
// the bytecode VM, and records the ProgramLog sequence, the outcome class and the value.
// It makes no judgement.
package main

import (
	"encoding/json"
	"fmt"
	"os"
	"runtime"
	"sort"
	"strconv"
	"strings"

	"github.com/onflow/cadence"

	"verifharness/host"
	"verifharness/util"
)

type Term struct {
	O string  `json:"o"`
	A []*Term `json:"a"`
	V int     `json:"v"`
	I int     `json:"i"`
	P int     `json:"p"`
}

type Case struct {
	ID   int    `json:"id"`
	Term *Term  `json:"term"`
	Ty   string `json:"ty"`
}

type Run struct {
	Engine string `json:"engine"`
	Class  string `json:"class"`
	Logs   []int  `json:"logs"`
	BadLog string `json:"badlog,omitempty"`
	Value  any    `json:"value"`
	Err    string `json:"err,omitempty"`
}

type Result struct {
	ID      int    `json:"id"`
	Src     string `json:"src,omitempty"`
	Expr    string `json:"expr"`
	Harness string `json:"harness,omitempty"`
	Runs    []Run  `json:"runs"`
}

const prelude = `access(all) fun b(_ i: Int, _ v: Bool): Bool { log(i); return v }
access(all) fun h(_ i: Int, _ p: Int): Int { log(i); return p }
access(all) fun n(_ i: Int, _ v: Int?): Int? { log(i); return v }
access(all) fun arr(_ i: Int): [Int] { log(i); return [10, 11, 12] }
access(all) fun dct(_ i: Int): {Int: Int} { log(i); return {0: 10, 1: 11} }
access(all) struct S {
  access(all) let x: Int
  init(_ x: Int) { self.x = x }
  access(all) fun m(_ mark: Int, _ a: Int, _ b: Int): Int { log(mark); return self.x + a + b }
}
access(all) fun mk(_ i: Int, _ p: Int): S { log(i); return S(p) }
access(all) fun mko(_ i: Int, _ present: Bool, _ p: Int): S? { log(i); if present { return S(p) }; return nil }
access(all) fun fn(_ mark: Int, _ a: Int, _ b: Int): Int { log(mark); return a + b }
access(all) struct W { access(all) var a: [Int]; init() { self.a = [10, 11, 12] } }
`

var binSym = map[string]string{
	"add": "+", "sub": "-", "mul": "*", "div": "/", "mod": "%",
	"lt": "<", "le": "<=", "gt": ">", "ge": ">=", "eq": "==", "ne": "!=",
	"beq": "==", "bne": "!=", "and": "&&", "or": "||", "coal": "??", "coalO": "??",
}

func expr(t *Term) string {
	a := func(i int) string { return expr(t.A[i]) }
	switch t.O {
	case "b":
		return fmt.Sprintf("b(%d, %v)", t.I, t.V == 1)
	case "h":
		return fmt.Sprintf("h(%d, %d)", t.I, t.P)
	case "n":
		if t.V == 1 {
			return fmt.Sprintf("n(%d, %d)", t.I, t.P)
		}
		return fmt.Sprintf("n(%d, nil)", t.I)
	case "arr":
		return fmt.Sprintf("arr(%d)", t.I)
	case "dct":
		return fmt.Sprintf("dct(%d)", t.I)
	case "mk":
		return fmt.Sprintf("mk(%d, %d)", t.I, t.P)
	case "mko":
		return fmt.Sprintf("mko(%d, %v, %d)", t.I, t.V == 1, t.P)
	case "not":
		return "(!" + a(0) + ")"
	case "neg":
		return "(-" + a(0) + ")"
	// static casts pin the type of conditional and nil-coalescing results: without them the checker
	// propagates the expected type of the context (e.g. `Integer` for an index) into the branches
	case "condB":
		return "(" + a(0) + " ? " + a(1) + " : " + a(2) + ")"
	case "condI":
		return "((" + a(0) + " ? " + a(1) + " : " + a(2) + ") as Int)"
	case "condO":
		return "((" + a(0) + " ? " + a(1) + " : " + a(2) + ") as Int?)"
	case "coal":
		return "((" + a(0) + " ?? " + a(1) + ") as Int)"
	case "coalO":
		return "((" + a(0) + " ?? " + a(1) + ") as Int?)"
	case "force":
		return "(" + a(0) + "!)"
	case "call":
		return fmt.Sprintf("%s.m(%d, %s, %s)", a(0), 100+t.I, a(1), a(2))
	case "fcall":
		return fmt.Sprintf("fn(%d, %s, %s)", 100+t.I, a(0), a(1))
	case "idx", "didx":
		return a(0) + "[" + a(1) + "]"
	case "mem":
		return a(0) + ".x"
	case "castfB", "castfI":
		return "((" + a(0) + " as AnyStruct) as! Int)"
	case "castqB", "castqI":
		return "((" + a(0) + " as AnyStruct) as? Int)"
	case "asO":
		return "(" + a(0) + " as Int?)"
	case "ocall":
		return fmt.Sprintf("%s?.m(%d, %s, %s)", a(0), 100+t.I, a(1), a(2))
	case "omem":
		return a(0) + "?.x"
	case "arrlit":
		return "[" + a(0) + ", " + a(1) + "]"
	case "dictlit":
		return "{" + a(0) + ": " + a(1) + ", " + a(2) + ": " + a(3) + "}"
	}
	if s, ok := binSym[t.O]; ok {
		return "(" + a(0) + " " + s + " " + a(1) + ")"
	}
	panic("unknown form " + t.O)
}

// statement forms: (statement, expression describing the state afterwards)
func stmt(t *Term) (string, string, bool) {
	a := func(i int) string { return expr(t.A[i]) }
	switch t.O {
	case "asgIdx":
		return fmt.Sprintf("a[%s] = %s", a(0), a(1)), "a", true
	case "asgIdx2":
		return fmt.Sprintf("aa[%s][%s] = %s", a(0), a(1), a(2)), "aa", true
	case "asgDict":
		return fmt.Sprintf("d[%s] = %s", a(0), a(1)), "d", true
	case "asgMemIdx":
		return fmt.Sprintf("ws[%s].a[%s] = %s", a(0), a(1), a(2)), "[ws[0].a, ws[1].a]", true
	case "swapIdx":
		return fmt.Sprintf("a[%s] <-> bb[%s]", a(0), a(1)), "[a, bb]", true
	case "swapSame":
		return fmt.Sprintf("a[%s] <-> a[%s]", a(0), a(1)), "a", true
	case "swapIdx2":
		return fmt.Sprintf("aa[%s][%s] <-> a[%s]", a(0), a(1), a(2)), "[aa, a]", true
	case "swapIdx2r":
		return fmt.Sprintf("a[%s] <-> aa[%s][%s]", a(0), a(1), a(2)), "[a, aa]", true
	}
	return "", "", false
}

// inClosure selects (by a hash of the rendered term) the cases evaluated inside a function expression.
func inClosure(s string) bool {
	h := 0
	for i := 0; i < len(s); i++ {
		h = h*31 + int(s[i])
	}
	return h&1 == 0
}

var retType = map[string]string{"B": "Bool", "I": "Int", "O": "Int?", "A": "[Int]", "D": "{Int: Int}"}

func render(c *Case) (src, shown string, err string) {
	defer func() {
		if r := recover(); r != nil {
			err = fmt.Sprint(r)
		}
	}()
	if st, state, ok := stmt(c.Term); ok {
		body := "  var a = [10, 11, 12]\n  var bb = [20, 21, 22]\n  var aa = [[10, 11], [20, 21]]\n" +
			"  var d: {Int: Int} = {0: 10, 1: 11}\n  var ws = [W(), W()]\n" +
			"  " + st + "\n  return " + state + "\n"
		if inClosure(st) {
			// half of the cases are evaluated inside a function expression: closures are the code
			// the compiler's peephole pass actually optimises (C34 replays these programs with it on)
			src = prelude + "access(all) fun main(): AnyStruct {\n  let f = fun (): AnyStruct {\n" + body + "  }\n  return f()\n}\n"
		} else {
			src = prelude + "access(all) fun main(): AnyStruct {\n" + body + "}\n"
		}
		return src, st, ""
	}
	rt, ok := retType[c.Ty]
	if !ok {
		return "", "", "no return type for " + c.Ty
	}
	e := expr(c.Term)
	if inClosure(e) {
		src = prelude + "access(all) fun main(): " + rt + " {\n  let f = fun (): " + rt + " {\n    return " + e + "\n  }\n  return f()\n}\n"
	} else {
		src = prelude + "access(all) fun main(): " + rt + " {\n  return " + e + "\n}\n"
	}
	return src, e, ""
}

// norm maps a cadence value onto the JSON shape ToJson gives the specification's values:
// Bool -> bool, Int -> number, optional -> [] / [v], array -> list, dictionary -> sorted list of [k, v].
func norm(v cadence.Value) any {
	switch x := v.(type) {
	case nil:
		return nil
	case cadence.Bool:
		return bool(x)
	case cadence.Int:
		n, _ := strconv.Atoi(x.String())
		return n
	case cadence.Optional:
		if x.Value == nil {
			return []any{}
		}
		return []any{norm(x.Value)}
	case cadence.Array:
		out := make([]any, len(x.Values))
		for i, e := range x.Values {
			out[i] = norm(e)
		}
		return out
	case cadence.Dictionary:
		out := make([]any, 0, len(x.Pairs))
		for _, p := range x.Pairs {
			out = append(out, []any{norm(p.Key), norm(p.Value)})
		}
		sort.Slice(out, func(i, j int) bool {
			return fmt.Sprint(out[i]) < fmt.Sprint(out[j])
		})
		return out
	}
	return v.String()
}

func firstErrLine(e error) string {
	for _, l := range strings.Split(e.Error(), "\n") {
		l = strings.TrimSpace(l)
		if strings.HasPrefix(l, "error:") {
			return l
		}
	}
	return strings.Split(e.Error(), "\n")[0]
}

func main() {
	if len(os.Args) == 3 && os.Args[1] == "-src" {
		b, _ := os.ReadFile(os.Args[2])
		for _, vm := range []bool{false, true} {
			w := host.NewWorld()
			r := w.Script(string(b), vm)
			fmt.Printf("vm=%v class=%s logs=%v value=%v err=%v\n", vm, r.Class, r.Logs, r.Value, r.Err)
		}
		return
	}
	if len(os.Args) < 3 {
		util.Die("usage: langeo <cases.ndjson> <results.ndjson>")
	}
	var cases []*Case
	err := util.ReadLines(os.Args[1], func(line []byte) error {
		c := &Case{}
		if err := json.Unmarshal(line, c); err != nil {
			return err
		}
		cases = append(cases, c)
		return nil
	})
	if err != nil {
		util.Die("reading cases: %v", err)
	}
	withSrc := os.Getenv("LANGEO_SRC") == "1"
	nw := runtime.NumCPU()
	worlds := make(chan *host.World, nw)
	for i := 0; i < nw; i++ {
		worlds <- host.NewWorld()
	}
	results := make([]Result, len(cases))
	util.Parallel(len(cases), nw, func(i int) {
		c := cases[i]
		res := Result{ID: c.ID}
		src, shown, rerr := render(c)
		res.Expr = shown
		if rerr != "" {
			res.Harness = "render: " + rerr
			results[i] = res
			return
		}
		if withSrc {
			res.Src = src
		}
		w := <-worlds
		for _, vm := range []bool{false, true} {
			r := w.Script(src, vm)
			run := Run{Engine: map[bool]string{false: "interpreter", true: "vm"}[vm], Class: r.Class}
			for _, l := range r.Logs {
				n, err := strconv.Atoi(l)
				if err != nil {
					run.BadLog = l
					continue
				}
				run.Logs = append(run.Logs, n)
			}
			if r.Err != nil {
				run.Err = firstErrLine(r.Err)
			} else {
				run.Value = norm(r.Value)
			}
			res.Runs = append(res.Runs, run)
		}
		worlds <- w
		results[i] = res
	})
	out := util.NewOut(os.Args[2])
	for i := range results {
		out.Write(&results[i])
	}
	out.Write(map[string]any{"summary": true, "cases": len(cases), "engines": 2})
	out.Close()
}
