package main

import (
	"fmt"
	"os"

	"verifharness/host"
)

func main() {
	if len(os.Args) == 3 && os.Args[1] == "-src" {
		b, _ := os.ReadFile(os.Args[2])
		for _, vm := range []bool{false, true} {
			w := host.NewWorld()
			r := w.Script(string(b), vm)
			fmt.Printf("vm=%v class=%s logs=%v value=%v err=%v\n", vm, r.Class, r.Logs, r.Value, r.Err)
		}
		return
	}
}
