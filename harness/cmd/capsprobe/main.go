package main

import (
	"fmt"
	"os"

	"github.com/onflow/cadence/common"
	"verifharness/host"
)

const typesContract = `
access(all) contract T {
  access(all) entitlement E
  access(all) entitlement F
  access(all) struct interface I {}
  access(all) struct S: I { init() {} }
  access(all) struct S2 { init() {} }
  access(all) resource R { init() {} }
  access(all) fun mkR(): @R { return <- create R() }
}`

func main() {
	w := host.NewWorld()
	if err := w.Deploy(host.Addr(1), "T", typesContract); err != nil {
		panic(err)
	}
	src, _ := os.ReadFile(os.Args[1])
	useVM := len(os.Args) > 2 && os.Args[2] == "vm"
	r := w.Tx(string(src), []common.Address{host.Addr(2), host.Addr(3)}, useVM)
	fmt.Println("class:", r.Class)
	if r.Err != nil {
		fmt.Println(r.Err)
	}
	for _, l := range r.Logs {
		fmt.Println("log:", l)
	}
	for _, e := range r.Events {
		fmt.Println("event:", e.String())
	}
}
