package main

func eqhashMain(args []string) {}
