package main

// C18: table conformance of ==, !=, <, <=, >, >= and dictionary keys against spec/lang/EqHash.tla.
//
// The TLC table (EqHashMC) holds groups of representations (reps) of one static type, the predicted
// equality / order of every pair of a group, the predicted identity of every pair of hashable reps as
// dictionary keys, and dictionary histories over pools of keys.  The driver renders every rep as a
// Cadence expression, evaluates the operations in scripts on both engines and compares.  The laws
// (reflexive, symmetric, transitive, total order consistent with ==, != is the negation, <= is < or ==)
// are additionally checked on the observed tables themselves.

import (
	"encoding/json"
	"fmt"
	"strconv"
	"strings"
	"sync/atomic"

	cdcruntime "github.com/onflow/cadence/runtime"

	"verifharness/host"
	"verifharness/util"
)

type tterm struct {
	C    string   `json:"c"`
	N    string   `json:"n"`
	Ms   []string `json:"ms"`
	Au   string   `json:"au"`
	Es   []string `json:"es"`
	Args []tterm  `json:"args"`
}

type rep struct {
	K    string   `json:"k"`
	Ty   string   `json:"ty"`
	Form string   `json:"form"`
	Src  []string `json:"src"`
	V    int      `json:"v"`
	Name string   `json:"name"`
	T    tterm    `json:"t"`
	Xs   []rep    `json:"xs"`
}

type eGroup struct {
	G          int    `json:"g"`
	Ty         string `json:"ty"`
	Comparable bool   `json:"comparable"`
	Hashable   bool   `json:"hashable"`
	Reps       []rep  `json:"reps"`
	eq         [][]bool
	cmp        [][]int
}

type eFail struct {
	Check  string `json:"check"` // eq | order | key | hist | law
	Engine string `json:"engine"`
	Ty     string `json:"ty"`
	Kind   string `json:"kind"`
	Op     string `json:"op"`
	A      string `json:"a"`
	B      string `json:"b,omitempty"`
	FormA  string `json:"form_a,omitempty"`
	FormB  string `json:"form_b,omitempty"`
	Want   string `json:"want"`
	Got    string `json:"got"`
	Dev    string `json:"dev"`
	Harn   bool   `json:"harness,omitempty"`
}

const eqDecls = `
access(all) struct interface I1 {}
access(all) struct interface I2 {}
access(all) struct interface I3 {}
access(all) resource interface R1 {}
access(all) resource interface R2 {}
access(all) entitlement X
access(all) entitlement Y
access(all) entitlement Z
access(all) enum E: UInt8 { access(all) case c0; access(all) case c1 }
access(all) enum F: UInt8 { access(all) case c0; access(all) case c1 }
access(all) fun noneString(): String? { return nil }
access(all) fun optString(_ x: String?): String? { return x }
access(all) fun int(_ x: Int): Int { return x }
access(all) fun i16(_ x: Int16): Int16 { return x }
access(all) fun qual(_ name: String): String {
    let id = Type<E>().identifier
    return id.slice(from: 0, upTo: id.length - 1).concat(name)
}
`

var (
	eOut    *util.Out
	eEvals  int64
	eNFails int64
)

func efail(f eFail) {
	if atomic.AddInt64(&eNFails, 1) > 300 {
		return
	}
	eOut.Write(f)
}

// ------------------------------------------------------------------ rendering

func symsToString(src []string) string { return conc(strings.Join(src, "")) }

func renderType(t tterm) string {
	switch t.C {
	case "prim":
		return t.N
	case "inter":
		return "{" + strings.Join(t.Ms, ", ") + "}"
	case "rinter":
		return "@{" + strings.Join(t.Ms, ", ") + "}"
	case "ref":
		inner := renderType(t.Args[0])
		switch t.Au {
		case "none":
			return "&" + inner
		case "conj":
			return "auth(" + strings.Join(t.Es, ", ") + ") &" + inner
		case "disj":
			return "auth(" + strings.Join(t.Es, " | ") + ") &" + inner
		}
	case "opt":
		inner := renderType(t.Args[0])
		if t.Args[0].C == "ref" {
			return "(" + inner + ")?"
		}
		return inner + "?"
	case "arr":
		return "[" + renderType(t.Args[0]) + "]"
	case "cap":
		return "Capability<" + renderType(t.Args[0]) + ">"
	case "dict":
		return "{" + renderType(t.Args[0]) + ": " + renderType(t.Args[1]) + "}"
	}
	util.Die("cannot render type term %+v", t)
	return ""
}

func quals(names []string) string {
	parts := make([]string, len(names))
	for i, n := range names {
		parts[i] = fmt.Sprintf("qual(%q)", n)
	}
	return "[" + strings.Join(parts, ", ") + "]"
}

// renderTypeDynamic builds the type value with the run-time type constructors.
func renderTypeDynamic(t tterm) string {
	switch t.C {
	case "prim":
		return "Type<" + t.N + ">()"
	case "inter", "rinter":
		return "IntersectionType(types: " + quals(t.Ms) + ")!"
	case "ref":
		if t.Au == "disj" {
			util.Die("no run-time constructor for a disjunctive authorization")
		}
		return "ReferenceType(entitlements: " + quals(t.Es) + ", type: " + renderTypeDynamic(t.Args[0]) + ")!"
	case "opt":
		return "OptionalType(" + renderTypeDynamic(t.Args[0]) + ")"
	case "arr":
		return "VariableSizedArrayType(" + renderTypeDynamic(t.Args[0]) + ")"
	case "cap":
		return "CapabilityType(" + renderTypeDynamic(t.Args[0]) + ")!"
	case "dict":
		return "DictionaryType(key: " + renderTypeDynamic(t.Args[0]) + ", value: " + renderTypeDynamic(t.Args[1]) + ")!"
	}
	util.Die("cannot render type term %+v", t)
	return ""
}

func fixLit(v int, long bool) string {
	sign := ""
	if v < 0 {
		sign, v = "-", -v
	}
	frac := fmt.Sprintf("%02d", v%100)
	if long {
		frac += "000000"
	} else if frac[1] == '0' {
		frac = frac[:1]
	}
	return fmt.Sprintf("%s%d.%s", sign, v/100, frac)
}

// render gives a Cadence expression for the rep; typed = the context already expects r.Ty.
func render(r rep, typed bool) string {
	cast := func(e string) string {
		if typed {
			return e
		}
		return "(" + e + " as " + r.Ty + ")"
	}
	switch r.K {
	case "String":
		s := symsToString(r.Src)
		switch r.Form {
		case "lit":
			return litEsc(s)
		case "utf8":
			bs := make([]string, len(s))
			for i := 0; i < len(s); i++ {
				bs[i] = strconv.Itoa(int(s[i]))
			}
			return "String.fromUTF8([" + strings.Join(bs, ", ") + "])!"
		case "concat":
			rs := []rune(s)
			return litEsc(string(rs[:1])) + ".concat(" + litEsc(string(rs[1:])) + ")"
		}
	case "Character":
		s := symsToString(r.Src)
		switch r.Form {
		case "lit":
			return cast(litEsc(s))
		case "index":
			return litEsc("b"+s) + "[1]"
		}
	case "Bool":
		switch r.Form {
		case "lit":
			return strconv.FormatBool(r.V == 1)
		case "not":
			return "!" + strconv.FormatBool(r.V != 1)
		case "cmp":
			if r.V == 1 {
				return "(1 == 1)"
			}
			return "(1 == 2)"
		}
	case "Num":
		switch r.Form {
		case "dec":
			return cast(strconv.Itoa(r.V))
		case "hex":
			if r.V < 0 {
				return cast(fmt.Sprintf("-0x%x", -r.V))
			}
			return cast(fmt.Sprintf("0x%x", r.V))
		case "conv":
			if r.Ty == "Int" {
				return fmt.Sprintf("Int(i16(%d))", r.V)
			}
			return fmt.Sprintf("%s(int(%d))", r.Ty, r.V)
		}
	case "Fix":
		switch r.Form {
		case "short":
			return cast(fixLit(r.V, false))
		case "long":
			return cast(fixLit(r.V, true))
		case "conv":
			return fmt.Sprintf("%s(int(%d))", r.Ty, r.V/100)
		}
	case "Address":
		switch r.Form {
		case "short":
			return cast(fmt.Sprintf("0x%x", r.V))
		case "padded":
			return cast(fmt.Sprintf("0x%016x", r.V))
		case "conv":
			return fmt.Sprintf("Address(0x%x)", r.V)
		}
	case "Path":
		parts := strings.SplitN(r.Name, "/", 2)
		switch r.Form {
		case "lit":
			return cast("/" + parts[0] + "/" + parts[1])
		case "ctor":
			ctor := map[string]string{"public": "PublicPath", "storage": "StoragePath"}[parts[0]]
			return cast(fmt.Sprintf("%s(identifier: %q)!", ctor, parts[1]))
		}
	case "Enum":
		switch r.Form {
		case "case":
			return fmt.Sprintf("%s.c%d", r.Ty, r.V)
		case "raw":
			return fmt.Sprintf("%s(rawValue: %d)!", r.Ty, r.V)
		}
	case "Type":
		switch r.Form {
		case "static":
			return "Type<" + renderType(r.T) + ">()"
		case "dynamic":
			return renderTypeDynamic(r.T)
		}
	case "Nil":
		switch r.Form {
		case "nil":
			return cast("nil")
		case "inner":
			if r.Ty != "String??" {
				util.Die("inner nil is only rendered for String??")
			}
			return cast("noneString()")
		}
	case "Some":
		x := r.Xs[0]
		if x.K == "Some" || x.K == "Nil" {
			if x.Ty != "String?" {
				util.Die("nested optional is only rendered for String?")
			}
			return cast("optString(" + render(x, true) + ")")
		}
		return cast(render(x, true))
	case "Arr":
		parts := make([]string, len(r.Xs))
		for i, x := range r.Xs {
			parts[i] = render(x, true)
		}
		return cast("[" + strings.Join(parts, ", ") + "]")
	case "Dict":
		var parts []string
		for i := 0; i+1 < len(r.Xs); i += 2 {
			parts = append(parts, render(r.Xs[i], true)+": "+render(r.Xs[i+1], true))
		}
		return cast("{" + strings.Join(parts, ", ") + "}")
	}
	util.Die("cannot render rep %+v", r)
	return ""
}

// describe is the readable form used in reports
func describe(r rep) string {
	switch r.K {
	case "String", "Character":
		return fmt.Sprintf("%s %s[%s] (%s)", r.K, r.Form+" ", strings.Join(r.Src, ""), render(r, true))
	}
	return render(r, false)
}

func kindOf(g *eGroup) string {
	k := g.Reps[0].K
	if k == "Nil" || k == "Some" {
		return "Optional"
	}
	return k
}

// ------------------------------------------------------------------ script execution

func runScript(src string, vm bool) host.Result {
	w := host.NewWorldWithConfig(cdcruntime.Config{})
	res := w.Script(src, vm)
	if strings.Contains(res.Class, "CheckerError") || strings.Contains(res.Class, "ParserError") || strings.Contains(res.Class, "ParsingCheckingError") ||
		strings.Contains(res.Class, "SyntaxError") {
		util.Die("generated script rejected (%s): %v\n%s", res.Class, res.Err, clip(src, 6000))
	}
	return res
}

func engineName(vm bool) string {
	if vm {
		return "vm"
	}
	return "interp"
}

func boolsOf(v any) []bool {
	a := v.([]any)
	out := make([]bool, len(a))
	for i, e := range a {
		out[i] = e.(bool)
	}
	return out
}

func listOf(g *eGroup) string {
	parts := make([]string, len(g.Reps))
	for i, r := range g.Reps {
		parts[i] = render(r, true)
	}
	return "[" + strings.Join(parts, ",\n        ") + "]"
}

func checkGroup(g *eGroup, vm bool) {
	engine := engineName(vm)
	n := len(g.Reps)
	kind := kindOf(g)
	src := eqDecls + fmt.Sprintf(`
access(all) fun main(): [[Bool]] {
    let xs: [%s] = %s
    let eq: [Bool] = []
    let ne: [Bool] = []
    for a in xs { for b in xs { eq.append(a == b); ne.append(a != b) } }
    return [eq, ne]
}`, g.Ty, listOf(g))
	res := runScript(src, vm)
	if res.Class != "ok" {
		efail(eFail{Check: "eq", Engine: engine, Ty: g.Ty, Kind: kind, Op: "==", A: "(whole group)", Want: "comparisons succeed", Got: res.Class + ": " + clip(fmt.Sprint(res.Err), 300), Dev: "equality-fails"})
		return
	}
	out := toGo(res.Value).([]any)
	eq, ne := boolsOf(out[0]), boolsOf(out[1])
	atomic.AddInt64(&eEvals, int64(2*n*n))
	at := func(m []bool, i, j int) bool { return m[i*n+j] }
	for i := 0; i < n; i++ {
		for j := 0; j < n; j++ {
			a, b := g.Reps[i], g.Reps[j]
			if at(eq, i, j) != g.eq[i][j] {
				efail(eFail{Check: "eq", Engine: engine, Ty: g.Ty, Kind: kind, Op: "==", A: describe(a), B: describe(b), FormA: a.Form, FormB: b.Form,
					Want: strconv.FormatBool(g.eq[i][j]), Got: strconv.FormatBool(at(eq, i, j)), Dev: "wrong-equality"})
			}
			if at(ne, i, j) == at(eq, i, j) {
				efail(eFail{Check: "law", Engine: engine, Ty: g.Ty, Kind: kind, Op: "!=", A: describe(a), B: describe(b), Want: "!= is the negation of ==", Got: "both " + strconv.FormatBool(at(eq, i, j)), Dev: "law-negation"})
			}
		}
	}
	// laws on the observed table itself
	for i := 0; i < n; i++ {
		if !at(eq, i, i) {
			efail(eFail{Check: "law", Engine: engine, Ty: g.Ty, Kind: kind, Op: "==", A: describe(g.Reps[i]), Want: "a == a", Got: "false", Dev: "law-reflexivity"})
		}
		for j := 0; j < n; j++ {
			if at(eq, i, j) != at(eq, j, i) {
				efail(eFail{Check: "law", Engine: engine, Ty: g.Ty, Kind: kind, Op: "==", A: describe(g.Reps[i]), B: describe(g.Reps[j]), Want: "a == b iff b == a", Got: "differ", Dev: "law-symmetry"})
			}
			for k := 0; k < n; k++ {
				if at(eq, i, j) && at(eq, j, k) && !at(eq, i, k) {
					efail(eFail{Check: "law", Engine: engine, Ty: g.Ty, Kind: kind, Op: "==", A: describe(g.Reps[i]), B: describe(g.Reps[j]) + " ; " + describe(g.Reps[k]), Want: "transitive", Got: "a == b, b == c, a != c", Dev: "law-transitivity"})
				}
			}
		}
	}
	if g.Comparable {
		checkOrder(g, vm, eq)
	}
	if g.Hashable {
		checkTypedKeys(g, vm)
	}
}

func checkOrder(g *eGroup, vm bool, eq []bool) {
	engine := engineName(vm)
	n := len(g.Reps)
	kind := kindOf(g)
	src := eqDecls + fmt.Sprintf(`
access(all) fun main(): [UInt8] {
    let xs: [%s] = %s
    let out: [UInt8] = []
    for a in xs { for b in xs {
        var m: UInt8 = 0
        if a < b { m = m + 1 }
        if a <= b { m = m + 2 }
        if a > b { m = m + 4 }
        if a >= b { m = m + 8 }
        out.append(m)
    } }
    return out
}`, g.Ty, listOf(g))
	res := runScript(src, vm)
	if res.Class != "ok" {
		dev := "comparison-fails"
		if host.IsInternal(res.Class) {
			dev = "comparison-fails-internal-error"
		}
		efail(eFail{Check: "order", Engine: engine, Ty: g.Ty, Kind: kind, Op: "< <= > >=", A: "(whole group)", Want: "a total order (the checker accepts the comparison)",
			Got: res.Class + ": " + clip(firstLine(fmt.Sprint(res.Err)), 300), Dev: dev})
		return
	}
	m := anyInts(toGo(res.Value))
	atomic.AddInt64(&eEvals, int64(4*n*n))
	mask := func(c int) int {
		switch {
		case c == 0:
			return 2 + 8
		case c < 0:
			return 1 + 2
		}
		return 4 + 8
	}
	lt := func(i, j int) bool { return m[i*n+j]&1 != 0 }
	for i := 0; i < n; i++ {
		for j := 0; j < n; j++ {
			a, b := g.Reps[i], g.Reps[j]
			if want := mask(g.cmp[i][j]); want != m[i*n+j] {
				efail(eFail{Check: "order", Engine: engine, Ty: g.Ty, Kind: kind, Op: "< <= > >=", A: describe(a), B: describe(b), FormA: a.Form, FormB: b.Form,
					Want: fmt.Sprintf("%04b", want), Got: fmt.Sprintf("%04b (bits from the low end: < <= > >=)", m[i*n+j]), Dev: "wrong-order"})
			}
			// laws on the observed table: exactly one of <, ==, >; <= is < or ==; > is the converse of <; >= is > or ==
			e := eq[i*n+j]
			x := m[i*n+j]
			okLaw := (b2i(lt(i, j))+b2i(e)+b2i(lt(j, i)) == 1) && ((x&2 != 0) == (lt(i, j) || e)) && ((x&4 != 0) == lt(j, i)) && ((x&8 != 0) == (lt(j, i) || e))
			if !okLaw {
				efail(eFail{Check: "law", Engine: engine, Ty: g.Ty, Kind: kind, Op: "< <= > >=", A: describe(a), B: describe(b), Want: "total order consistent with ==", Got: fmt.Sprintf("%04b, == %v", x, e), Dev: "law-total-order"})
			}
			for k := 0; k < n; k++ {
				if lt(i, j) && lt(j, k) && !lt(i, k) {
					efail(eFail{Check: "law", Engine: engine, Ty: g.Ty, Kind: kind, Op: "<", A: describe(a), B: describe(b) + " ; " + describe(g.Reps[k]), Want: "transitive", Got: "a < b, b < c, not a < c", Dev: "law-transitivity"})
				}
			}
		}
	}
}

func b2i(b bool) int {
	if b {
		return 1
	}
	return 0
}

func firstLine(s string) string {
	for _, ln := range strings.Split(s, "\n") {
		if strings.HasPrefix(ln, "error:") {
			return ln
		}
	}
	return s
}

const keyLoop = `
    let out: [UInt8] = []
    for a in ks { for b in ks {
        let d: {KEYTYPE: Int} = {}
        d[a] = 1
        let old = d.insert(key: b, 2)
        var m: UInt8 = 0
        if d.length == 1 { m = m + 1 }
        if old == 1 { m = m + 2 }
        if d[a] == 2 { m = m + 4 }
        if d[b] == 2 { m = m + 8 }
        if d.containsKey(a) && d.containsKey(b) && d.keys.length == d.length && d.values.length == d.length { m = m + 16 }
        if d[a] == 1 { m = m + 32 }
        out.append(m)
    } }
    return out
}`

func keyMask(same bool) int {
	if same {
		return 1 + 2 + 4 + 8 + 16
	}
	return 8 + 16 + 32
}

func explainKeyMask(m int) string {
	return fmt.Sprintf("length=1:%v replaced-old-value:%v d[a]=2:%v d[b]=2:%v keys-consistent:%v d[a]=1:%v", m&1 != 0, m&2 != 0, m&4 != 0, m&8 != 0, m&16 != 0, m&32 != 0)
}

// typed dictionary {T: Int} over the reps of one hashable group
func checkTypedKeys(g *eGroup, vm bool) {
	engine := engineName(vm)
	n := len(g.Reps)
	src := eqDecls + fmt.Sprintf("\naccess(all) fun main(): [UInt8] {\n    let ks: [%s] = %s\n", g.Ty, listOf(g)) + strings.Replace(keyLoop, "KEYTYPE", g.Ty, 1)
	res := runScript(src, vm)
	if res.Class != "ok" {
		efail(eFail{Check: "key", Engine: engine, Ty: g.Ty, Kind: kindOf(g), Op: "dictionary", A: "(whole group)", Want: "dictionary operations succeed", Got: res.Class + ": " + clip(firstLine(fmt.Sprint(res.Err)), 300), Dev: "dictionary-fails"})
		return
	}
	m := anyInts(toGo(res.Value))
	atomic.AddInt64(&eEvals, int64(6*n*n))
	for i := 0; i < n; i++ {
		for j := 0; j < n; j++ {
			if want := keyMask(g.eq[i][j]); want != m[i*n+j] {
				a, b := g.Reps[i], g.Reps[j]
				efail(eFail{Check: "key", Engine: engine, Ty: "{" + g.Ty + ": Int}", Kind: kindOf(g), Op: "insert a; insert b", A: describe(a), B: describe(b), FormA: a.Form, FormB: b.Form,
					Want: explainKeyMask(want), Got: explainKeyMask(m[i*n+j]), Dev: keyDev(g.eq[i][j])})
			}
		}
	}
}

func keyDev(same bool) string {
	if same {
		return "equal-keys-two-entries"
	}
	return "different-keys-one-entry"
}

type hk struct {
	g, i int
	same []bool
}

func checkAllKeys(groups map[int]*eGroup, keys []hk, vm bool) {
	engine := engineName(vm)
	n := len(keys)
	parts := make([]string, n)
	for p, k := range keys {
		parts[p] = render(groups[k.g].Reps[k.i-1], false)
	}
	src := eqDecls + "\naccess(all) fun main(): [UInt8] {\n    let ks: [HashableStruct] = [" + strings.Join(parts, ",\n        ") + "]\n" +
		strings.Replace(keyLoop, "KEYTYPE", "HashableStruct", 1)
	res := runScript(src, vm)
	if res.Class != "ok" {
		efail(eFail{Check: "key", Engine: engine, Ty: "{HashableStruct: Int}", Kind: "mixed", Op: "dictionary", A: "(all hashable reps)", Want: "dictionary operations succeed", Got: res.Class + ": " + clip(firstLine(fmt.Sprint(res.Err)), 300), Dev: "dictionary-fails"})
		return
	}
	m := anyInts(toGo(res.Value))
	if len(m) != n*n {
		util.Die("key script returned %d results for %d keys", len(m), n)
	}
	atomic.AddInt64(&eEvals, int64(6*n*n))
	for p := 0; p < n; p++ {
		for q := 0; q < n; q++ {
			if want := keyMask(keys[p].same[q]); want != m[p*n+q] {
				a, b := groups[keys[p].g].Reps[keys[p].i-1], groups[keys[q].g].Reps[keys[q].i-1]
				kind := a.K
				if a.K != b.K || a.Ty != b.Ty {
					kind = a.K + "/" + b.K
				}
				efail(eFail{Check: "key", Engine: engine, Ty: "{HashableStruct: Int}", Kind: kind, Op: "insert a; insert b", A: describe(a), B: describe(b), FormA: a.Form, FormB: b.Form,
					Want: explainKeyMask(want), Got: explainKeyMask(m[p*n+q]), Dev: keyDev(keys[p].same[q])})
			}
		}
	}
}

type hist struct {
	Pool int   `json:"pool"`
	Ks   []int `json:"ks"`
	Keys []rep `json:"keys"`
	Old  []int `json:"old"`
	Len  int   `json:"len"`
	Look []int `json:"look"`
}

func checkHistories(pool []rep, hs []hist, vm bool) {
	engine := engineName(vm)
	parts := make([]string, len(pool))
	for i, r := range pool {
		parts[i] = render(r, false)
	}
	var k1, k2, k3 []string
	for _, h := range hs {
		k1 = append(k1, strconv.Itoa(h.Ks[0]-1))
		k2 = append(k2, strconv.Itoa(h.Ks[1]-1))
		k3 = append(k3, strconv.Itoa(h.Ks[2]-1))
	}
	src := eqDecls + fmt.Sprintf(`
access(all) fun main(): [[Int]] {
    let ks: [HashableStruct] = [%s]
    let k1: [Int] = [%s]
    let k2: [Int] = [%s]
    let k3: [Int] = [%s]
    let out: [[Int]] = []
    var h = 0
    while h < k1.length {
        let d: {HashableStruct: Int} = {}
        let r: [Int] = []
        r.append(d.insert(key: ks[k1[h]], 1) ?? -1)
        r.append(d.insert(key: ks[k2[h]], 2) ?? -1)
        r.append(d.remove(key: ks[k3[h]]) ?? -1)
        r.append(d.length)
        for k in ks { r.append(d[k] ?? -1) }
        var viaKeys = 0
        for k in d.keys { viaKeys = viaKeys + 1 }
        r.append(viaKeys)
        out.append(r)
        h = h + 1
    }
    return out
}`, strings.Join(parts, ",\n        "), strings.Join(k1, ", "), strings.Join(k2, ", "), strings.Join(k3, ", "))
	res := runScript(src, vm)
	if res.Class != "ok" {
		efail(eFail{Check: "hist", Engine: engine, Ty: "{HashableStruct: Int}", Kind: "mixed", Op: "history", A: fmt.Sprintf("(pool %d)", hs[0].Pool), Want: "dictionary operations succeed", Got: res.Class + ": " + clip(firstLine(fmt.Sprint(res.Err)), 300), Dev: "dictionary-fails"})
		return
	}
	out := toGo(res.Value).([]any)
	for x, h := range hs {
		got := anyInts(out[x])
		want := append(append([]int{}, h.Old...), h.Len)
		want = append(want, h.Look...)
		want = append(want, h.Len)
		atomic.AddInt64(&eEvals, int64(len(want)))
		if fmt.Sprint(got) != fmt.Sprint(want) {
			efail(eFail{Check: "hist", Engine: engine, Ty: "{HashableStruct: Int}", Kind: pool[h.Ks[0]-1].K, Op: "insert k1->1; insert k2->2; remove k3; length; lookups; keys",
				A:    fmt.Sprintf("k1=%s k2=%s k3=%s", describe(pool[h.Ks[0]-1]), describe(pool[h.Ks[1]-1]), describe(pool[h.Ks[2]-1])),
				Want: fmt.Sprint(want), Got: fmt.Sprint(got), Dev: "wrong-history"})
		}
	}
}

// ------------------------------------------------------------------ main

func eqhashMain(args []string) {
	if len(args) < 2 {
		util.Die("usage: strings eqhash <out.ndjson> <table>... [workers=N]")
	}
	eOut = util.NewOut(args[0])
	gOut = eOut
	defer eOut.Close()
	workers := 8
	groups := map[int]*eGroup{}
	type pairRow struct {
		G   int    `json:"g"`
		I   int    `json:"i"`
		Eq  []bool `json:"eq"`
		Cmp []int  `json:"cmp"`
	}
	var pairs []pairRow
	keyRows := map[int]hk{}
	var hists []hist
	for _, a := range args[1:] {
		if strings.HasPrefix(a, "workers=") {
			workers, _ = strconv.Atoi(a[8:])
			continue
		}
		err := readRows(a, func(raw []byte) {
			var head struct {
				Row      string              `json:"row"`
				Alphabet map[string]symFacts `json:"alphabet"`
			}
			if err := json.Unmarshal(raw, &head); err != nil {
				util.Die("bad row: %v", err)
			}
			switch {
			case head.Alphabet != nil:
				if gAlpha == nil {
					gAlpha = head.Alphabet
					validateAlphabet(gAlpha)
				}
			case head.Row == "group":
				var g eGroup
				if err := json.Unmarshal(raw, &g); err != nil {
					util.Die("bad group row: %v", err)
				}
				groups[g.G] = &g
			case head.Row == "pair":
				var p pairRow
				if err := json.Unmarshal(raw, &p); err != nil {
					util.Die("bad pair row: %v", err)
				}
				pairs = append(pairs, p)
			case head.Row == "key":
				var k struct {
					P    int    `json:"p"`
					G    int    `json:"g"`
					I    int    `json:"i"`
					Same []bool `json:"same"`
				}
				if err := json.Unmarshal(raw, &k); err != nil {
					util.Die("bad key row: %v", err)
				}
				keyRows[k.P] = hk{g: k.G, i: k.I, same: k.Same}
			case head.Row == "hist":
				var h hist
				if err := json.Unmarshal(raw, &h); err != nil {
					util.Die("bad hist row: %v", err)
				}
				hists = append(hists, h)
			}
		})
		if err != nil {
			util.Die("reading %s: %v", a, err)
		}
	}
	if gAlpha == nil {
		util.Die("no alphabet row in the table")
	}
	for _, g := range groups {
		n := len(g.Reps)
		g.eq = make([][]bool, n)
		g.cmp = make([][]int, n)
	}
	for _, p := range pairs {
		g := groups[p.G]
		if g == nil || p.I < 1 || p.I > len(g.Reps) || len(p.Eq) != len(g.Reps) {
			util.Die("pair row (%d, %d) does not fit its group", p.G, p.I)
		}
		g.eq[p.I-1] = p.Eq
		g.cmp[p.I-1] = p.Cmp
	}
	nreps, npairs := 0, 0
	var gl []*eGroup
	for i := 1; i <= len(groups); i++ {
		g := groups[i]
		if g == nil {
			util.Die("group %d missing from the table", i)
		}
		for j := range g.Reps {
			if g.eq[j] == nil || (g.Comparable && len(g.cmp[j]) != len(g.Reps)) {
				util.Die("group %d: pair row %d missing", i, j+1)
			}
		}
		nreps += len(g.Reps)
		npairs += len(g.Reps) * len(g.Reps)
		gl = append(gl, g)
	}
	keys := make([]hk, len(keyRows))
	for p := 1; p <= len(keyRows); p++ {
		k, ok := keyRows[p]
		if !ok || len(k.same) != len(keyRows) {
			util.Die("key row %d missing or of the wrong size", p)
		}
		keys[p-1] = k
	}
	// pools of the histories
	pools := map[int][]rep{}
	byPool := map[int][]hist{}
	for _, h := range hists {
		if len(h.Keys) > 0 {
			pools[h.Pool] = h.Keys
		}
		byPool[h.Pool] = append(byPool[h.Pool], h)
	}
	type job func()
	var jobs []job
	for _, vm := range []bool{false, true} {
		vm := vm
		for _, g := range gl {
			g := g
			jobs = append(jobs, func() { checkGroup(g, vm) })
		}
		jobs = append(jobs, func() { checkAllKeys(groups, keys, vm) })
		for q, hs := range byPool {
			q, hs := q, hs
			if pools[q] == nil {
				util.Die("pool %d has no key list", q)
			}
			jobs = append(jobs, func() { checkHistories(pools[q], hs, vm) })
		}
	}
	util.Parallel(len(jobs), workers, func(i int) { jobs[i]() })

	// coverage figures
	classes := 0 // distinct values (equivalence classes of the model) over all groups
	eqpairs := 0 // pairs of DIFFERENT reps that are equal
	for _, g := range gl {
		n := len(g.Reps)
		for i := 0; i < n; i++ {
			first := true
			for j := 0; j < n; j++ {
				if g.eq[i][j] && j < i {
					first = false
				}
				if g.eq[i][j] && i != j {
					eqpairs++
				}
			}
			if first {
				classes++
			}
		}
	}
	samekeys := 0
	for p := range keys {
		for q := range keys {
			if p != q && keys[p].same[q] {
				samekeys++
			}
		}
	}
	eOut.Write(map[string]any{"summary": true, "groups": len(gl), "reps": nreps, "pairs": npairs, "distinct_values": classes,
		"equal_pairs_of_different_reps": eqpairs, "hashable_reps": len(keys), "key_pairs": len(keys) * len(keys), "equal_key_pairs_of_different_reps": samekeys,
		"histories": len(hists), "pools": len(pools), "evals": atomic.LoadInt64(&eEvals), "engines": 2, "failures": atomic.LoadInt64(&eNFails)})
}
