package main

func graphemesMain(args []string) {}
