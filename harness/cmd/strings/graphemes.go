package main

// C19: table conformance of the real String implementation against spec/text/Graphemes.tla.
//
// Every row of the TLC table describes one string SOURCE over the symbol alphabet of the
// specification together with the predicted result of every operation.  The driver maps symbols to
// code points, builds the real strings and executes the operations
//   - directly on interpreter.StringValue (path "go"),
//   - in Cadence scripts that receive the strings as arguments (path "args"), on both engines,
//   - in Cadence scripts that contain the strings as literals (path "lit", a hash-selected share),
// and reports every difference.  Before anything is judged, the alphabet mapping and the model's
// Norm / Clusters are validated against golang.org/x/text/unicode/norm and github.com/rivo/uniseg
// (a mismatch is a harness error: exit 2).

import (
	"encoding/json"
	"fmt"
	"hash/fnv"
	"os"
	"runtime"
	"sort"
	"strconv"
	"strings"
	"sync"
	"sync/atomic"
	"time"
	"unicode"
	"unicode/utf8"

	"github.com/onflow/cadence"
	"github.com/onflow/cadence/common"
	cdcjson "github.com/onflow/cadence/encoding/json"
	"github.com/onflow/cadence/interpreter"
	cdcruntime "github.com/onflow/cadence/runtime"
	"github.com/rivo/uniseg"
	"golang.org/x/text/unicode/norm"

	"verifharness/host"
	"verifharness/util"
)

// ------------------------------------------------------------------ table rows

type gNeedle struct {
	N   string   `json:"n"`  // needle source (symbols)
	Nv  string   `json:"nv"` // needle value (normalized symbols)
	C   bool     `json:"c"`
	I   int      `json:"i"`
	K   int      `json:"k"`
	Sp  []string `json:"sp"`
	Rp  []string `json:"rp"`
	Cmp int      `json:"cmp"`
	Cc  string   `json:"cc"`
	Ccl int      `json:"ccl"`
}

type gRow struct {
	Al  string     `json:"al"`
	S   string     `json:"s"`
	V   string     `json:"v"`
	Cl  []string   `json:"cl"`
	Ix  []string   `json:"ix"`
	Sl  [][]string `json:"sl"`
	U8  []int      `json:"u8"`
	Lo  string     `json:"lo"`
	Lol int        `json:"lol"`
	Hx  string     `json:"hx"`
	Dh  []int      `json:"dh"`
	Cm  [][]any    `json:"cm"` // [value, cmp(this value, that value)] for every ranked value
	cmp map[string]int
	Rs  []string  `json:"rs"`
	Nd  []gNeedle `json:"nd"`
}

type symFacts struct {
	CP     int    `json:"cp"`
	Class  string `json:"class"`
	CCC    int    `json:"ccc"`
	Decomp string `json:"decomp"`
	Lower  string `json:"lower"`
	Hex    int    `json:"hex"`
}

type gFail struct {
	Op     string `json:"op"`
	Path   string `json:"path"`   // go | args | lit-esc | lit-raw
	Engine string `json:"engine"` // go | interp | vm
	Al     string `json:"al"`
	S      string `json:"s"`
	V      string `json:"v"`
	N      string `json:"n,omitempty"`
	Arg    string `json:"arg,omitempty"`
	Want   string `json:"want"`
	Got    string `json:"got"`
	Dev    string `json:"dev"`   // wrong-value | fails-but-defined | succeeds-but-undefined | internal-error
	Shape  string `json:"shape"` // class description of the case
	Harn   bool   `json:"harness,omitempty"`
	Cadsrc string `json:"concrete,omitempty"`
}

var (
	symCP   = map[byte]rune{}
	cpSym   = map[rune]byte{}
	gOut    *util.Out
	nGo     int64
	nCad    int64
	nFails  int64
	gAlpha  map[string]symFacts
	failMax = int64(400)
)

func conc(sym string) string {
	var sb strings.Builder
	for i := 0; i < len(sym); i++ {
		r, ok := symCP[sym[i]]
		if !ok {
			util.Die("symbol %q of the table is not in the alphabet", sym[i])
		}
		sb.WriteRune(r)
	}
	return sb.String()
}

// abst maps a concrete string back to symbols; anything outside the alphabet is shown as <U+XXXX>.
func abst(s string) string {
	var sb strings.Builder
	for len(s) > 0 {
		r, size := utf8.DecodeRuneInString(s)
		if r == utf8.RuneError && size <= 1 {
			fmt.Fprintf(&sb, "<byte %02x>", s[0])
			s = s[1:]
			continue
		}
		if c, ok := cpSym[r]; ok {
			sb.WriteByte(c)
		} else {
			fmt.Fprintf(&sb, "<U+%04X>", r)
		}
		s = s[size:]
	}
	return sb.String()
}

func absts(ss []string) []string {
	out := make([]string, len(ss))
	for i, s := range ss {
		out[i] = abst(s)
	}
	return out
}

func showList(ss []string) string { return "[" + strings.Join(ss, "|") + "]" }

// shapeOf describes the case semantically (for known-finding matchers and for the report).
func shapeOf(r *gRow, n *gNeedle) string {
	var parts []string
	if r.S != r.V {
		parts = append(parts, "source-not-normalized")
	}
	multi := false
	for _, c := range r.Cl {
		if len(c) > 1 {
			multi = true
		}
	}
	if multi {
		parts = append(parts, "multi-symbol-cluster")
	}
	if n != nil {
		if n.N != n.Nv {
			parts = append(parts, "needle-not-normalized")
		}
		if misaligned(r, n) {
			parts = append(parts, "misaligned-needle")
		}
	}
	if len(parts) == 0 {
		return "plain"
	}
	return strings.Join(parts, ",")
}

// misaligned: the needle's symbols occur in the value's symbols more often than as characters
func misaligned(r *gRow, n *gNeedle) bool {
	if n.Nv == "" {
		return false
	}
	return strings.Count(r.V, n.Nv) > n.K || (strings.Contains(r.V, n.Nv) && !n.C)
}

func fail(f gFail) {
	if atomic.AddInt64(&nFails, 1) > failMax {
		return
	}
	gOut.Write(f)
}

func harnessFail(what string, r *gRow, want, got string) {
	gOut.Write(gFail{Op: what, Path: "validate", Engine: "go", Al: r.Al, S: r.S, V: r.V, Want: want, Got: got, Harn: true})
}

// ------------------------------------------------------------------ alphabet validation

func validateAlphabet(facts map[string]symFacts) {
	for sym, f := range facts {
		if len(sym) != 1 {
			util.Die("alphabet symbol %q is not a single letter", sym)
		}
		symCP[sym[0]] = rune(f.CP)
		cpSym[rune(f.CP)] = sym[0]
	}
	bad := func(sym string, format string, a ...any) {
		util.Die("alphabet mapping invalid for symbol %s (U+%04X): %s", sym, facts[sym].CP, fmt.Sprintf(format, a...))
	}
	count := func(s string) int { return uniseg.GraphemeClusterCount(s) }
	zwj := "\u200d"
	for sym, f := range facts {
		r := rune(f.CP)
		x := string(r)
		p := norm.NFC.PropertiesString(x)
		if int(p.CCC()) != f.CCC {
			bad(sym, "combining class %d, specification says %d", p.CCC(), f.CCC)
		}
		if got := abst(norm.NFD.String(x)); got != f.Decomp {
			bad(sym, "canonical decomposition %s, specification says %s", got, f.Decomp)
		}
		if got := abst(strings.ToLower(x)); got != f.Lower {
			bad(sym, "lower case %s, specification says %s", got, f.Lower)
		}
		hv := -1
		if v, err := strconv.ParseUint(x, 16, 8); err == nil && len(x) == 1 {
			hv = int(v)
		}
		if hv != f.Hex {
			bad(sym, "hex digit value %d, specification says %d", hv, f.Hex)
		}
		ok := true
		switch f.Class {
		case "Base":
			ok = unicode.IsLetter(r) && f.Decomp == sym && count("b"+x) == 2 && count(x+"b") == 2
		case "Precomposed":
			ok = unicode.IsLetter(r) && f.Decomp != sym && count("b"+x) == 2 && count(x+"b") == 2
		case "Extend":
			ok = (unicode.Is(unicode.Mn, r) || unicode.Is(unicode.Me, r)) && count("b"+x) == 1 && count("\r"+x) == 2
		case "ZWJ":
			ok = r == 0x200D && unicode.Is(unicode.Join_Control, r) && count("b"+x) == 1
		case "ExtPict":
			// GB11 holds for it and not for a letter
			ok = count(x+zwj+x) == 1 && count("b"+zwj+"b") == 2 && count(x+x) == 2
		case "RI":
			ok = unicode.Is(unicode.Regional_Indicator, r) && count(x+x) == 1 && count(x+x+x) == 2
		case "CR":
			ok = r == '\r'
		case "LF":
			ok = r == '\n'
		case "L":
			ok = unicode.Is(unicode.Hangul, r) && r >= 0x1100 && r <= 0x115F
		case "V":
			ok = unicode.Is(unicode.Hangul, r) && r >= 0x1160 && r <= 0x11A7
		case "T":
			ok = unicode.Is(unicode.Hangul, r) && r >= 0x11A8 && r <= 0x11FF
		case "LV":
			ok = r >= 0xAC00 && r <= 0xD7A3 && (r-0xAC00)%28 == 0
		case "LVT":
			ok = r >= 0xAC00 && r <= 0xD7A3 && (r-0xAC00)%28 != 0
		default:
			bad(sym, "unknown class %s", f.Class)
		}
		if !ok {
			bad(sym, "the code point does not have class %s according to unicode / x/text / uniseg", f.Class)
		}
	}
}

func unisegClusters(s string) []string {
	var out []string
	g := uniseg.NewGraphemes(s)
	for g.Next() {
		out = append(out, g.Str())
	}
	return out
}

// validateRow: the model's Norm and Clusters agree with the reference libraries on this row.
func validateRow(r *gRow) bool {
	ok := true
	src := conc(r.S)
	if got := abst(norm.NFC.String(src)); got != r.V {
		harnessFail("model-norm-vs-x/text", r, r.V, got)
		ok = false
	}
	if got := absts(unisegClusters(conc(r.V))); showList(got) != showList(r.Cl) {
		harnessFail("model-clusters-vs-uniseg", r, showList(r.Cl), showList(got))
		ok = false
	}
	u8 := []byte(conc(r.V))
	if len(u8) != len(r.U8) {
		harnessFail("model-utf8", r, fmt.Sprint(r.U8), fmt.Sprint(u8))
		ok = false
	} else {
		for i := range u8 {
			if int(u8[i]) != r.U8[i] {
				harnessFail("model-utf8", r, fmt.Sprint(r.U8), fmt.Sprint(u8))
				ok = false
				break
			}
		}
	}
	for i := range r.Nd {
		n := &r.Nd[i]
		if got := abst(norm.NFC.String(conc(n.N))); got != n.Nv {
			harnessFail("model-norm-vs-x/text(needle "+n.N+")", r, n.Nv, got)
			ok = false
		}
	}
	return ok
}

// ------------------------------------------------------------------ direct StringValue calls

type apiWorker struct {
	inter *interpreter.Interpreter
}

func newAPIWorker() *apiWorker {
	inter, err := interpreter.NewInterpreter(nil, common.ScriptLocation{}, &interpreter.Config{
		Storage: interpreter.NewInMemoryStorage(nil, nil),
	})
	if err != nil {
		util.Die("NewInterpreter: %v", err)
	}
	return &apiWorker{inter: inter}
}

// try runs f; a Go panic is turned into its error class ("user:<T>", "internal:<T>", "crash").
func try(f func()) (class string) {
	defer func() {
		if r := recover(); r != nil {
			if e, ok := r.(error); ok {
				class = host.Classify(e)
				if class == "ok" {
					class = "crash"
				}
			} else {
				class = "crash"
			}
		}
	}()
	f()
	return "ok"
}

func strArray(inter *interpreter.Interpreter, v interpreter.Value) []string {
	arr := v.(*interpreter.ArrayValue)
	var out []string
	arr.Iterate(inter, func(e interpreter.Value) bool {
		out = append(out, e.(*interpreter.StringValue).Str)
		return true
	}, false)
	return out
}

type judge struct {
	r      *gRow
	path   string
	engine string
}

// outcome compares an observed outcome (class, value) with the predicted one ("!" = fails).
func (j judge) outcome(op string, n *gNeedle, arg string, want string, class string, got string) {
	nn := ""
	if n != nil {
		nn = n.N
	}
	f := gFail{Op: op, Path: j.path, Engine: j.engine, Al: j.r.Al, S: j.r.S, V: j.r.V, N: nn, Arg: arg, Want: want, Shape: shapeOf(j.r, n)}
	switch {
	case host.IsInternal(class):
		f.Got, f.Dev = class, "internal-error"
	case class != "ok" && !strings.HasPrefix(class, "user:"):
		f.Got, f.Dev = class, "internal-error"
	case class != "ok" && want != "!":
		f.Got, f.Dev = class, "fails-but-defined"
	case class == "ok" && want == "!":
		f.Got, f.Dev = got, "succeeds-but-undefined"
	case class == "ok" && want != got:
		f.Got, f.Dev = got, "wrong-value"
	default:
		return
	}
	fail(f)
}

func cmpFlags(c int) string {
	// == != < <= > >=
	switch {
	case c == 0:
		return "TFFTFT"
	case c < 0:
		return "FTTTFF"
	}
	return "FTFFTT"
}

func tf(b bool) byte {
	if b {
		return 'T'
	}
	return 'F'
}

func (w *apiWorker) checkRow(r *gRow) {
	inter := w.inter
	j := judge{r: r, path: "go", engine: "go"}
	src := conc(r.S)
	n := len(r.Cl)
	v := interpreter.NewUnmeteredStringValue(src) // one value reused by all operations (the cached iterator is shared)
	fresh := func() *interpreter.StringValue { return interpreter.NewUnmeteredStringValue(src) }
	ev := func(k int) { atomic.AddInt64(&nGo, int64(k)) }

	j.outcome("normalize", nil, "", r.V, "ok", abst(v.Str))
	var got string
	cl := try(func() { got = strconv.Itoa(fresh().Length(inter)) })
	j.outcome("length", nil, "", strconv.Itoa(n), cl, got)
	// iteration
	var chars []string
	cl = try(func() {
		it := fresh().Iterator(inter)
		for {
			x := it.Next(inter)
			if x == nil {
				break
			}
			chars = append(chars, x.(interpreter.CharacterValue).Str)
		}
	})
	j.outcome("iterate", nil, "", showList(r.Cl), cl, showList(absts(chars)))
	chars = nil
	cl = try(func() {
		v.ForEach(inter, nil, func(x interpreter.Value) bool {
			chars = append(chars, x.(interpreter.CharacterValue).Str)
			return true
		}, false)
	})
	j.outcome("forEach", nil, "", showList(r.Cl), cl, showList(absts(chars)))
	ev(4)
	// indexing, slicing: every index in -1..n, every pair of bounds in -1..n+1
	for i := -1; i <= n; i++ {
		cl = try(func() {
			got = abst(v.GetKey(inter, interpreter.NewUnmeteredIntValueFromInt64(int64(i))).(interpreter.CharacterValue).Str)
		})
		j.outcome("index", nil, strconv.Itoa(i), r.Ix[i+1], cl, got)
	}
	ev(n + 2)
	for f := -1; f <= n+1; f++ {
		for t := -1; t <= n+1; t++ {
			cl = try(func() {
				got = abst(v.Slice(inter, interpreter.NewUnmeteredIntValueFromInt64(int64(f)), interpreter.NewUnmeteredIntValueFromInt64(int64(t))).(*interpreter.StringValue).Str)
			})
			j.outcome("slice", nil, fmt.Sprintf("%d,%d", f, t), r.Sl[f+1][t+1], cl, got)
		}
	}
	ev((n + 3) * (n + 3))
	// toLower, utf8, hex
	var lol int
	cl = try(func() { l := v.ToLower(inter); got = abst(l.Str); lol = l.Length(inter) })
	j.outcome("toLower", nil, "", r.Lo, cl, got)
	if cl == "ok" {
		j.outcome("toLower.length", nil, "", strconv.Itoa(r.Lol), cl, strconv.Itoa(lol))
	}
	var bs []byte
	cl = try(func() {
		arr := v.GetMember(inter, "utf8", common.DeclarationKindField, nil)
		bs, _ = interpreter.ByteArrayValueToByteSlice(inter, arr)
		got = fmt.Sprint(toInts(bs))
	})
	j.outcome("utf8", nil, "", fmt.Sprint(r.U8), cl, got)
	cl = try(func() {
		got = interpreter.StringFunctionEncodeHex(inter, interpreter.ByteSliceToByteArrayValue(inter, []byte(conc(r.V)))).(*interpreter.StringValue).Str
	})
	j.outcome("encodeHex", nil, "", r.Hx, cl, got)
	wantDh := fmt.Sprint(r.Dh)
	if len(r.Dh) == 1 && r.Dh[0] < 0 {
		wantDh = "!"
	}
	cl = try(func() {
		b, _ := interpreter.ByteArrayValueToByteSlice(inter, v.DecodeHex(inter))
		got = fmt.Sprint(toInts(b))
	})
	j.outcome("decodeHex", nil, "", wantDh, cl, got)
	cl = try(func() {
		got = abst(interpreter.StringFunctionFromUtf8(inter, interpreter.ByteSliceToByteArrayValue(inter, []byte(src))).(*interpreter.SomeValue).InnerValue().(*interpreter.StringValue).Str)
	})
	j.outcome("fromUTF8(source bytes)", nil, "", r.V, cl, got)
	ev(6)

	repl := make([]*interpreter.StringValue, len(r.Rs))
	for i, s := range r.Rs {
		repl[i] = interpreter.NewUnmeteredStringValue(conc(s))
	}
	for ni := range r.Nd {
		nd := &r.Nd[ni]
		nv := interpreter.NewUnmeteredStringValue(conc(nd.N))
		// on the shared value and on a fresh one (the search mutates the cached grapheme iterator)
		for _, hv := range []*interpreter.StringValue{v, fresh()} {
			cl = try(func() { got = string(tf(bool(hv.Contains(inter, nv)))) })
			j.outcome("contains", nd, "", string(tf(nd.C)), cl, got)
			cl = try(func() { got = hv.IndexOf(inter, nv).String() })
			j.outcome("index(of:)", nd, "", strconv.Itoa(nd.I), cl, got)
			cl = try(func() { got = hv.Count(inter, nv).String() })
			j.outcome("count", nd, "", strconv.Itoa(nd.K), cl, got)
		}
		var parts *interpreter.ArrayValue
		cl = try(func() { parts = v.Split(inter, nv); got = showList(absts(strArray(inter, parts))) })
		j.outcome("split", nd, "", showList(nd.Sp), cl, got)
		for ri, rv := range repl {
			cl = try(func() { got = abst(v.ReplaceAll(inter, nv, rv).Str) })
			j.outcome("replaceAll", nd, r.Rs[ri], nd.Rp[ri], cl, got)
			if parts != nil {
				cl = try(func() { got = abst(interpreter.StringFunctionJoin(inter, parts, rv).(*interpreter.StringValue).Str) })
				j.outcome("join(split)", nd, r.Rs[ri], nd.Rp[ri], cl, got)
			}
		}
		var ccl int
		cl = try(func() { c := v.Concat(inter, nv).(*interpreter.StringValue); got = abst(c.Str); ccl = c.Length(inter) })
		j.outcome("concat", nd, "", nd.Cc, cl, got)
		if cl == "ok" {
			j.outcome("concat.length", nd, "", strconv.Itoa(nd.Ccl), cl, strconv.Itoa(ccl))
		}
		cl = try(func() {
			got = string([]byte{tf(v.Equal(inter, nv)), tf(!v.Equal(inter, nv)), tf(bool(v.Less(inter, nv))), tf(bool(v.LessEqual(inter, nv))),
				tf(bool(v.Greater(inter, nv))), tf(bool(v.GreaterEqual(inter, nv)))})
		})
		j.outcome("compare", nd, "", cmpFlags(nd.Cmp), cl, got)
		ev(6 + 1 + 2*len(repl) + 2 + 6)
	}
	// concatenation law bound to the code: every two-part cut of the source concatenates to the value
	rs := []rune(src)
	for k := 0; k <= len(rs); k++ {
		a := interpreter.NewUnmeteredStringValue(string(rs[:k]))
		b := interpreter.NewUnmeteredStringValue(string(rs[k:]))
		var ccl int
		cl = try(func() { c := a.Concat(inter, b).(*interpreter.StringValue); got = abst(c.Str); ccl = c.Length(inter) })
		j.outcome("concat(cut source)", nil, strconv.Itoa(k), r.V, cl, got)
		if cl == "ok" {
			j.outcome("concat(cut source).length", nil, strconv.Itoa(k), strconv.Itoa(n), cl, strconv.Itoa(ccl))
		}
	}
	ev(len(rs) + 1)
}

func toInts(b []byte) []int {
	out := make([]int, len(b))
	for i, x := range b {
		out[i] = int(x)
	}
	return out
}

// ------------------------------------------------------------------ Cadence scripts

const scriptBody = `
    let out: [[AnyStruct]] = []
    var k = 0
    while k < ss.length {
        let s = ss[k]
        let len = s.length
        let chars: [String] = []
        let cs: [Character] = []
        for c in s { chars.append(c.toString()); cs.append(c) }
        let ix: [String] = []
        var i = 0
        while i < len { ix.append(s[i].toString()); i = i + 1 }
        let sl: [String] = []
        var f = 0
        while f <= len {
            var t = f
            while t <= len { sl.append(s.slice(from: f, upTo: t)); t = t + 1 }
            f = f + 1
        }
        let nres: [[AnyStruct]] = []
        for n in nds[k] {
            let sp = s.split(separator: n)
            let rp: [String] = []
            let jn: [String] = []
            for r in rps[k] {
                rp.append(s.replaceAll(of: n, with: r))
                jn.append(String.join(sp, separator: r))
            }
            let cc = s.concat(n)
            nres.append([s.contains(n), s.index(of: n), s.count(n), sp, rp, jn, cc, cc.length,
                         [s == n, s != n, s < n, s <= n, s > n, s >= n]])
        }
        let lo = s.toLower()
        var dh: [UInt8] = []
        if dhok[k] { dh = s.decodeHex() }
        let cuts: [String] = []
        let cutlens: [Int] = []
        var c = 0
        while c < cutl[k].length {
            let x = cutl[k][c].concat(cutr[k][c])
            cuts.append(x)
            cutlens.append(x.length)
            c = c + 1
        }
        out.append([s, len, chars, ix, sl, s.utf8, lo, lo.length, String.encodeHex(s.utf8), dh,
                    String.fromUTF8(s.utf8)!, String.fromCharacters(cs), nres, cuts, cutlens])
        k = k + 1
    }
    return out
}
`

const argsHeader = `access(all) fun main(ss: [String], nds: [[String]], rps: [[String]], dhok: [Bool], cutl: [[String]], cutr: [[String]]): [[AnyStruct]] {`

func cdcString(s string) cadence.Value {
	v, err := cadence.NewString(s)
	if err != nil {
		util.Die("cadence.NewString(%q): %v", s, err)
	}
	return v
}

func cdcStrings(ss []string) cadence.Value {
	vs := make([]cadence.Value, len(ss))
	for i, s := range ss {
		vs[i] = cdcString(s)
	}
	return cadence.NewArray(vs)
}

func cdcNested(sss [][]string) cadence.Value {
	vs := make([]cadence.Value, len(sss))
	for i, ss := range sss {
		vs[i] = cdcStrings(ss)
	}
	return cadence.NewArray(vs)
}

func encodeArg(v cadence.Value) []byte {
	b, err := cdcjson.Encode(v)
	if err != nil {
		util.Die("encode argument: %v", err)
	}
	return b
}

func litEsc(s string) string {
	var sb strings.Builder
	sb.WriteByte('"')
	for _, r := range s {
		fmt.Fprintf(&sb, `\u{%x}`, r)
	}
	sb.WriteByte('"')
	return sb.String()
}

func litRaw(s string) string {
	var sb strings.Builder
	sb.WriteByte('"')
	for _, r := range s {
		switch r {
		case '\r':
			sb.WriteString(`\r`)
		case '\n':
			sb.WriteString(`\n`)
		default:
			sb.WriteRune(r)
		}
	}
	sb.WriteByte('"')
	return sb.String()
}

func litList(ss []string, lit func(string) string) string {
	parts := make([]string, len(ss))
	for i, s := range ss {
		parts[i] = lit(s)
	}
	return "[" + strings.Join(parts, ", ") + "]"
}

func litNested(sss [][]string, lit func(string) string) string {
	parts := make([]string, len(sss))
	for i, ss := range sss {
		parts[i] = litList(ss, lit)
	}
	return "[" + strings.Join(parts, ",\n        ") + "]"
}

type batchInputs struct {
	ss   []string
	nds  [][]string
	rps  [][]string
	dhok []bool
	cutl [][]string
	cutr [][]string
}

func inputsOf(rows []*gRow) batchInputs {
	var in batchInputs
	for _, r := range rows {
		src := conc(r.S)
		in.ss = append(in.ss, src)
		nd := make([]string, len(r.Nd))
		for i := range r.Nd {
			nd[i] = conc(r.Nd[i].N)
		}
		in.nds = append(in.nds, nd)
		rp := make([]string, len(r.Rs))
		for i := range r.Rs {
			rp[i] = conc(r.Rs[i])
		}
		in.rps = append(in.rps, rp)
		in.dhok = append(in.dhok, !(len(r.Dh) == 1 && r.Dh[0] < 0))
		rs := []rune(src)
		var l, rr []string
		for k := 0; k <= len(rs); k++ {
			l = append(l, string(rs[:k]))
			rr = append(rr, string(rs[k:]))
		}
		in.cutl = append(in.cutl, l)
		in.cutr = append(in.cutr, rr)
	}
	return in
}

func toGo(v cadence.Value) any {
	switch x := v.(type) {
	case cadence.String:
		return string(x)
	case cadence.Character:
		return string(x)
	case cadence.Bool:
		return bool(x)
	case cadence.Int:
		return x.Int()
	case cadence.UInt8:
		return int(x)
	case cadence.Optional:
		if x.Value == nil {
			return nil
		}
		return toGo(x.Value)
	case cadence.Array:
		out := make([]any, len(x.Values))
		for i, e := range x.Values {
			out[i] = toGo(e)
		}
		return out
	}
	util.Die("unexpected script result value %T", v)
	return nil
}

func anyStrings(v any) []string {
	a := v.([]any)
	out := make([]string, len(a))
	for i, e := range a {
		out[i] = e.(string)
	}
	return out
}

func anyInts(v any) []int {
	a := v.([]any)
	out := make([]int, len(a))
	for i, e := range a {
		out[i] = e.(int)
	}
	return out
}

// judgeScriptRow compares the script's result for one row with the prediction.
func judgeScriptRow(j judge, res []any) {
	r := j.r
	n := len(r.Cl)
	ok := "ok"
	j.outcome("normalize", nil, "", r.V, ok, abst(res[0].(string)))
	j.outcome("length", nil, "", strconv.Itoa(n), ok, strconv.Itoa(res[1].(int)))
	j.outcome("iterate", nil, "", showList(r.Cl), ok, showList(absts(anyStrings(res[2]))))
	j.outcome("index", nil, "0..len-1", showList(r.Ix[1:len(r.Ix)-1]), ok, showList(absts(anyStrings(res[3]))))
	var wantSl []string
	for f := 0; f <= n; f++ {
		for t := f; t <= n; t++ {
			wantSl = append(wantSl, r.Sl[f+1][t+1])
		}
	}
	j.outcome("slice", nil, "all 0<=from<=upTo<=len", showList(wantSl), ok, showList(absts(anyStrings(res[4]))))
	j.outcome("utf8", nil, "", fmt.Sprint(r.U8), ok, fmt.Sprint(anyInts(res[5])))
	j.outcome("toLower", nil, "", r.Lo, ok, abst(res[6].(string)))
	j.outcome("toLower.length", nil, "", strconv.Itoa(r.Lol), ok, strconv.Itoa(res[7].(int)))
	j.outcome("encodeHex", nil, "", r.Hx, ok, res[8].(string))
	if !(len(r.Dh) == 1 && r.Dh[0] < 0) {
		j.outcome("decodeHex", nil, "", fmt.Sprint(r.Dh), ok, fmt.Sprint(anyInts(res[9])))
	}
	j.outcome("fromUTF8(utf8)", nil, "", r.V, ok, abst(res[10].(string)))
	j.outcome("fromCharacters(iterate)", nil, "", r.V, ok, abst(res[11].(string)))
	nres := res[12].([]any)
	if len(nres) != len(r.Nd) {
		util.Die("script returned %d needle results for %d needles", len(nres), len(r.Nd))
	}
	for i := range r.Nd {
		nd := &r.Nd[i]
		x := nres[i].([]any)
		j.outcome("contains", nd, "", string(tf(nd.C)), ok, string(tf(x[0].(bool))))
		j.outcome("index(of:)", nd, "", strconv.Itoa(nd.I), ok, strconv.Itoa(x[1].(int)))
		j.outcome("count", nd, "", strconv.Itoa(nd.K), ok, strconv.Itoa(x[2].(int)))
		j.outcome("split", nd, "", showList(nd.Sp), ok, showList(absts(anyStrings(x[3]))))
		rp := absts(anyStrings(x[4]))
		jn := absts(anyStrings(x[5]))
		for ri := range r.Rs {
			j.outcome("replaceAll", nd, r.Rs[ri], nd.Rp[ri], ok, rp[ri])
			j.outcome("join(split)", nd, r.Rs[ri], nd.Rp[ri], ok, jn[ri])
		}
		j.outcome("concat", nd, "", nd.Cc, ok, abst(x[6].(string)))
		j.outcome("concat.length", nd, "", strconv.Itoa(nd.Ccl), ok, strconv.Itoa(x[7].(int)))
		fl := x[8].([]any)
		b := make([]byte, len(fl))
		for k := range fl {
			b[k] = tf(fl[k].(bool))
		}
		j.outcome("compare", nd, "", cmpFlags(nd.Cmp), ok, string(b))
	}
	cuts := absts(anyStrings(res[13]))
	cutlens := anyInts(res[14])
	for k := range cuts {
		j.outcome("concat(cut source)", nil, strconv.Itoa(k), r.V, ok, cuts[k])
		j.outcome("concat(cut source).length", nil, strconv.Itoa(k), strconv.Itoa(n), ok, strconv.Itoa(cutlens[k]))
	}
}

func evalsOfRow(r *gRow) int {
	n := len(r.Cl)
	return 12 + n + (n+1)*(n+2)/2 + len(r.Nd)*(6+2*len(r.Rs)+6) + 2*(len(r.S)+1)
}

// runBatch executes one batch on one engine through one path; when the whole batch fails (a predicted-
// defined operation aborted the script), the rows are re-run one by one to find the row, and that row is
// reported as "fails-but-defined" (user error) or "internal-error".
func runBatch(rows []*gRow, path string, useVM bool) {
	engine := "interp"
	if useVM {
		engine = "vm"
	}
	in := inputsOf(rows)
	var src string
	var args [][]byte
	switch path {
	case "args":
		src = argsHeader + scriptBody
		dh := make([]cadence.Value, len(in.dhok))
		for i, b := range in.dhok {
			dh[i] = cadence.NewBool(b)
		}
		args = [][]byte{encodeArg(cdcStrings(in.ss)), encodeArg(cdcNested(in.nds)), encodeArg(cdcNested(in.rps)),
			encodeArg(cadence.NewArray(dh)), encodeArg(cdcNested(in.cutl)), encodeArg(cdcNested(in.cutr))}
	default:
		lit := litEsc
		if path == "lit-raw" {
			lit = litRaw
		}
		dh := make([]string, len(in.dhok))
		for i, b := range in.dhok {
			dh[i] = strconv.FormatBool(b)
		}
		src = "access(all) fun main(): [[AnyStruct]] {\n" +
			"    let ss: [String] = " + litList(in.ss, lit) + "\n" +
			"    let nds: [[String]] = " + litNested(in.nds, lit) + "\n" +
			"    let rps: [[String]] = " + litNested(in.rps, lit) + "\n" +
			"    let dhok: [Bool] = [" + strings.Join(dh, ", ") + "]\n" +
			"    let cutl: [[String]] = " + litNested(in.cutl, lit) + "\n" +
			"    let cutr: [[String]] = " + litNested(in.cutr, lit) + "\n" + scriptBody
	}
	w := host.NewWorldWithConfig(cdcruntime.Config{})
	res := w.Script(src, useVM, args...)
	if res.Class == "ok" {
		out := toGo(res.Value).([]any)
		if len(out) != len(rows) {
			util.Die("script returned %d rows for %d", len(out), len(rows))
		}
		for i, r := range rows {
			judgeScriptRow(judge{r: r, path: path, engine: engine}, out[i].([]any))
			atomic.AddInt64(&nCad, int64(evalsOfRow(r)))
		}
		return
	}
	if strings.HasPrefix(res.Class, "user:CheckerError") || strings.HasPrefix(res.Class, "user:ParserError") || strings.Contains(res.Class, "ParsingCheckingError") {
		util.Die("generated script rejected (%s): %v\n%s", res.Class, res.Err, clip(src, 3000))
	}
	if len(rows) == 1 {
		r := rows[0]
		dev := "fails-but-defined"
		if host.IsInternal(res.Class) || !strings.HasPrefix(res.Class, "user:") {
			dev = "internal-error"
		}
		fail(gFail{Op: "script-of-defined-operations", Path: path, Engine: engine, Al: r.Al, S: r.S, V: r.V, Want: "all operations of the row succeed",
			Got: res.Class + ": " + clip(fmt.Sprint(res.Err), 300), Dev: dev, Shape: shapeOf(r, nil)})
		return
	}
	for _, r := range rows {
		runBatch([]*gRow{r}, path, useVM)
	}
}

func clip(s string, n int) string {
	if len(s) > n {
		return s[:n] + "..."
	}
	return s
}

// predicted failures: one script per failing call (a failure aborts the script), hash-selected share
func runFailing(r *gRow, share uint32) {
	n := len(r.Cl)
	type one struct {
		op, arg, src string
	}
	var cases []one
	s := litEsc(conc(r.S))
	for _, i := range []int{-1, n} {
		cases = append(cases, one{"index", strconv.Itoa(i), fmt.Sprintf("access(all) fun main(): String { let s = %s\n return s[%d].toString() }", s, i)})
	}
	for f := -1; f <= n+1; f++ {
		for t := -1; t <= n+1; t++ {
			if r.Sl[f+1][t+1] == "!" {
				cases = append(cases, one{"slice", fmt.Sprintf("%d,%d", f, t), fmt.Sprintf("access(all) fun main(): String { let s = %s\n return s.slice(from: %d, upTo: %d) }", s, f, t)})
			}
		}
	}
	if len(r.Dh) == 1 && r.Dh[0] < 0 {
		cases = append(cases, one{"decodeHex", "", fmt.Sprintf("access(all) fun main(): [UInt8] { let s = %s\n return s.decodeHex() }", s)})
	}
	for _, c := range cases {
		h := fnv.New32a()
		h.Write([]byte(r.S + "/" + c.op + "/" + c.arg))
		if share > 1 && h.Sum32()%share != 0 {
			continue
		}
		for _, vm := range []bool{false, true} {
			engine := "interp"
			if vm {
				engine = "vm"
			}
			w := host.NewWorldWithConfig(cdcruntime.Config{})
			res := w.Script(c.src, vm)
			if strings.Contains(res.Class, "CheckerError") || strings.Contains(res.Class, "ParserError") || strings.Contains(res.Class, "ParsingCheckingError") {
				util.Die("generated script rejected (%s): %v\n%s", res.Class, res.Err, c.src)
			}
			got := ""
			if res.Class == "ok" {
				got = fmt.Sprint(res.Value)
			}
			judge{r: r, path: "lit-esc", engine: engine}.outcome(c.op, nil, c.arg, "!", res.Class, got)
			atomic.AddInt64(&nCad, 1)
		}
	}
}

// ------------------------------------------------------------------ ordering by ranks

const rankScript = `access(all) fun main(ss: [String]): [UInt8] {
    let out: [UInt8] = []
    for a in ss {
        for b in ss {
            var m: UInt8 = 0
            if a == b { m = m + 1 }
            if a != b { m = m + 2 }
            if a < b { m = m + 4 }
            if a <= b { m = m + 8 }
            if a > b { m = m + 16 }
            if a >= b { m = m + 32 }
            out.append(m)
        }
    }
    return out
}`

func rankMask(c int) int {
	switch {
	case c == 0:
		return 1 + 8 + 32
	case c < 0:
		return 2 + 4 + 8
	}
	return 2 + 16 + 32
}

func checkRanks(rows []*gRow) int {
	if len(rows) == 0 {
		return 0
	}
	sort.Slice(rows, func(i, j int) bool { return rows[i].S < rows[j].S })
	for _, r := range rows {
		r.cmp = map[string]int{}
		for _, e := range r.Cm {
			r.cmp[e[0].(string)] = int(e[1].(float64))
		}
	}
	want := func(a, b *gRow) int {
		c, ok := a.cmp[b.V]
		if !ok {
			util.Die("comparison table of %q has no entry for value %q", a.S, b.V)
		}
		return rankMask(c)
	}
	report := func(engine, path string, a, b *gRow, want, got int) {
		fail(gFail{Op: "compare-all-pairs", Path: path, Engine: engine, Al: a.Al, S: a.S, V: a.V, N: b.S,
			Want: fmt.Sprintf("mask %06b (== != < <= > >= from the low bit)", want), Got: fmt.Sprintf("mask %06b", got),
			Dev: "wrong-value", Shape: shapeOf(a, nil)})
	}
	// direct
	inter := newAPIWorker().inter
	vals := make([]*interpreter.StringValue, len(rows))
	ss := make([]string, len(rows))
	for i, r := range rows {
		ss[i] = conc(r.S)
		vals[i] = interpreter.NewUnmeteredStringValue(ss[i])
	}
	for i, a := range vals {
		for k, b := range vals {
			m := 0
			if a.Equal(inter, b) {
				m |= 1
			} else {
				m |= 2
			}
			if a.Less(inter, b) {
				m |= 4
			}
			if a.LessEqual(inter, b) {
				m |= 8
			}
			if a.Greater(inter, b) {
				m |= 16
			}
			if a.GreaterEqual(inter, b) {
				m |= 32
			}
			if wm := want(rows[i], rows[k]); wm != m {
				report("go", "go", rows[i], rows[k], wm, m)
			}
		}
	}
	atomic.AddInt64(&nGo, int64(6*len(rows)*len(rows)))
	for _, vm := range []bool{false, true} {
		engine := "interp"
		if vm {
			engine = "vm"
		}
		w := host.NewWorldWithConfig(cdcruntime.Config{})
		res := w.Script(rankScript, vm, encodeArg(cdcStrings(ss)))
		if res.Class != "ok" {
			util.Die("rank script failed: %s %v", res.Class, res.Err)
		}
		out := anyInts(toGo(res.Value))
		if len(out) != len(rows)*len(rows) {
			util.Die("rank script returned %d results", len(out))
		}
		for i := range rows {
			for k := range rows {
				if wm := want(rows[i], rows[k]); wm != out[i*len(rows)+k] {
					report(engine, "args", rows[i], rows[k], wm, out[i*len(rows)+k])
				}
			}
		}
		atomic.AddInt64(&nCad, int64(6*len(rows)*len(rows)))
	}
	return len(rows) * len(rows)
}

// ------------------------------------------------------------------ conventions for empty needles (recorded, not judged)

func emptyConventions(rows []*gRow) map[string]any {
	inter := newAPIWorker().inter
	empty := interpreter.NewUnmeteredStringValue("")
	tally := map[string]int{}
	total := 0
	for _, r := range rows {
		if total >= 3000 {
			break
		}
		total++
		v := interpreter.NewUnmeteredStringValue(conc(r.S))
		n := len(r.Cl)
		cl := try(func() {
			if bool(v.Contains(inter, empty)) {
				tally["contains(\"\") = true"]++
			}
			if v.IndexOf(inter, empty).String() == "0" {
				tally["index(of: \"\") = 0"]++
			}
			if v.Count(inter, empty).String() == strconv.Itoa(n+1) {
				tally["count(\"\") = length + 1"]++
			}
			if showList(absts(strArray(inter, v.Split(inter, empty)))) == showList(r.Cl) {
				tally["split(separator: \"\") = the characters"]++
			}
			if v.ReplaceAll(inter, empty, empty).Str == v.Str {
				tally["replaceAll(of: \"\", with: \"\") = the string"]++
			}
		})
		if cl != "ok" {
			tally["an operation with an empty needle failed: "+cl]++
		}
	}
	out := map[string]any{"strings_observed": total}
	for k, v := range tally {
		out[k] = v
	}
	return out
}

// ------------------------------------------------------------------ main

func graphemesMain(args []string) {
	if len(args) < 2 {
		util.Die("usage: strings graphemes <out.ndjson> <table>... [batch=N] [litshare=N] [failshare=N] [workers=N]")
	}
	gOut = util.NewOut(args[0])
	defer gOut.Close()
	batch, litShare, failShare, workers := 60, uint32(4), uint32(8), runtime.NumCPU()
	var tables []string
	for _, a := range args[1:] {
		switch {
		case strings.HasPrefix(a, "batch="):
			batch, _ = strconv.Atoi(a[6:])
		case strings.HasPrefix(a, "litshare="):
			x, _ := strconv.Atoi(a[9:])
			litShare = uint32(x)
		case strings.HasPrefix(a, "failshare="):
			x, _ := strconv.Atoi(a[10:])
			failShare = uint32(x)
		case strings.HasPrefix(a, "workers="):
			workers, _ = strconv.Atoi(a[8:])
		default:
			tables = append(tables, a)
		}
	}
	var rows []*gRow
	for _, t := range tables {
		err := readRows(t, func(raw []byte) {
			if strings.HasPrefix(string(raw), `{"alphabet"`) {
				var a struct {
					Alphabet map[string]symFacts `json:"alphabet"`
				}
				if err := json.Unmarshal(raw, &a); err != nil {
					util.Die("alphabet row: %v", err)
				}
				if gAlpha == nil {
					gAlpha = a.Alphabet
					validateAlphabet(gAlpha)
				}
				return
			}
			var r gRow
			if err := json.Unmarshal(raw, &r); err != nil {
				util.Die("bad table row: %v: %s", err, clip(string(raw), 300))
			}
			if r.Ix == nil || r.Sl == nil {
				util.Die("table row without predictions: %s", clip(string(raw), 300))
			}
			sort.Slice(r.Nd, func(i, j int) bool { return r.Nd[i].N < r.Nd[j].N })
			rows = append(rows, &r)
		})
		if err != nil {
			util.Die("reading %s: %v", t, err)
		}
	}
	if gAlpha == nil {
		util.Die("no alphabet row in the tables")
	}
	// 0. the model agrees with the reference libraries on every row
	valid := true
	for _, r := range rows {
		if !validateRow(r) {
			valid = false
		}
	}
	if !valid {
		gOut.Write(map[string]any{"summary": true, "rows": len(rows), "invalid": true})
		return
	}
	t0 := time.Now()
	lap := func(what string) {
		fmt.Fprintf(os.Stderr, "[graphemes] %s: %.1fs\n", what, time.Since(t0).Seconds())
		t0 = time.Now()
	}
	// 1. direct calls, every row
	var wg sync.WaitGroup
	ch := make(chan *gRow, 256)
	for i := 0; i < workers; i++ {
		wg.Add(1)
		go func() {
			defer wg.Done()
			w := newAPIWorker()
			for r := range ch {
				w.checkRow(r)
			}
		}()
	}
	for _, r := range rows {
		ch <- r
	}
	close(ch)
	wg.Wait()
	lap("direct calls")
	// 2. scripts: arguments path on every row and both engines; literal paths on a hash-selected share
	type job struct {
		rows []*gRow
		path string
		vm   bool
	}
	var jobs []job
	for i := 0; i < len(rows); i += batch {
		e := i + batch
		if e > len(rows) {
			e = len(rows)
		}
		jobs = append(jobs, job{rows[i:e], "args", false}, job{rows[i:e], "args", true})
	}
	var litRows [2][]*gRow
	for _, r := range rows {
		h := fnv.New32a()
		h.Write([]byte(r.Al + "/" + r.S))
		x := h.Sum32()
		if litShare <= 1 || x%litShare == 0 {
			litRows[(x/7)%2] = append(litRows[(x/7)%2], r)
		}
	}
	nLit := 0
	for k, path := range []string{"lit-esc", "lit-raw"} {
		lr := litRows[k]
		nLit += len(lr)
		for i := 0; i < len(lr); i += batch {
			e := i + batch
			if e > len(lr) {
				e = len(lr)
			}
			jobs = append(jobs, job{lr[i:e], path, false}, job{lr[i:e], path, true})
		}
	}
	util.Parallel(len(jobs), workers, func(i int) { runBatch(jobs[i].rows, jobs[i].path, jobs[i].vm) })
	lap("batched scripts")
	// 3. predicted failures, one script each
	util.Parallel(len(rows), workers, func(i int) { runFailing(rows[i], failShare) })
	lap("failing scripts")
	// 4. ordering of all ranked pairs
	var ranked []*gRow
	for _, r := range rows {
		if len(r.Cm) > 0 {
			ranked = append(ranked, r)
		}
	}
	pairs := checkRanks(ranked)
	lap("all-pairs ordering")

	// coverage figures
	values := map[string]bool{}
	cases := map[string]bool{}
	nontrivial := map[string]bool{}
	mis := map[string]bool{}
	unnorm := 0
	needles := 0
	for _, r := range rows {
		values[r.V] = true
		if r.S != r.V {
			unnorm++
		}
		for i := range r.Nd {
			nd := &r.Nd[i]
			needles++
			key := r.V + "/" + nd.Nv
			cases[key] = true
			if shapeOf(r, nd) != "plain" {
				nontrivial[key] = true
			}
			if misaligned(r, nd) {
				mis[key] = true
			}
		}
	}
	gOut.Write(map[string]any{"summary": true, "rows": len(rows), "needle_rows": needles, "distinct_values": len(values),
		"distinct_cases": len(cases), "nontrivial": len(nontrivial), "misaligned": len(mis), "sources_not_normalized": unnorm,
		"go_evals": atomic.LoadInt64(&nGo), "cadence_evals": atomic.LoadInt64(&nCad), "literal_rows": nLit,
		"ranked_strings": len(ranked), "ranked_pairs": pairs, "failures": atomic.LoadInt64(&nFails),
		"empty_needle_conventions": emptyConventions(rows)})
}
