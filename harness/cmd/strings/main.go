// strings: drivers of the "strings" family.
//
//	strings graphemes <out.ndjson> <spec-table>...    C19: table conformance against spec/text/Graphemes.tla
//	strings eqhash    <out.ndjson> <spec-table>...    C18: table conformance against spec/lang/EqHash.tla
//	strings probe     <file.cdc>                      run one script on both engines (development aid)
//
// The specification decides; the drivers only execute the real code on the cases the specification
// enumerated and report rows where the observed outcome differs from the row's prediction.
// A spec table is an NDJSON file of rows or a raw TLC output file in which every row is a line
// `"<json>"` printed by PrintT(ToJson(row)).
package main

import (
	"bufio"
	"encoding/json"
	"fmt"
	"os"
	"strings"

	"verifharness/host"
)

func main() {
	if len(os.Args) < 2 {
		fmt.Fprintln(os.Stderr, "usage: strings <graphemes|eqhash|probe> ...")
		os.Exit(2)
	}
	cmd, args := os.Args[1], os.Args[2:]
	switch cmd {
	case "graphemes":
		graphemesMain(args)
	case "eqhash":
		eqhashMain(args)
	case "probe":
		src, err := os.ReadFile(args[0])
		if err != nil {
			panic(err)
		}
		for _, vm := range []bool{false, true} {
			w := host.NewWorld()
			r := w.Script(string(src), vm)
			fmt.Printf("vm=%v class=%s value=%v err=%v logs=%v\n", vm, r.Class, r.Value, r.Err, r.Logs)
		}
	default:
		fmt.Fprintln(os.Stderr, "unknown sub-command", cmd)
		os.Exit(2)
	}
}

// readRows streams the rows of a spec table (NDJSON or raw TLC output) to f.
func readRows(path string, f func(raw []byte)) error {
	fh, err := os.Open(path)
	if err != nil {
		return err
	}
	defer fh.Close()
	sc := bufio.NewScanner(fh)
	sc.Buffer(make([]byte, 1<<24), 1<<28)
	for sc.Scan() {
		b := sc.Bytes()
		if len(b) == 0 {
			continue
		}
		switch b[0] {
		case '"':
			var s string
			if err := json.Unmarshal(b, &s); err != nil {
				// TLC prints TLA+ strings; ToJson output only needs \" and \\ unescaped
				s = strings.ReplaceAll(strings.ReplaceAll(string(b[1:len(b)-1]), `\"`, `"`), `\\`, `\`)
			}
			if len(s) > 0 && (s[0] == '[' || s[0] == '{') {
				f([]byte(s))
			}
		case '[', '{':
			f(append([]byte(nil), b...))
		}
	}
	return sc.Err()
}
