package main

import (
	"fmt"
	"os"

	"verifharness/host"
)

func main() {
	src, _ := os.ReadFile(os.Args[1])
	for _, vm := range []bool{false, true} {
		w := host.NewWorld()
		r := w.Script(string(src), vm)
		fmt.Printf("vm=%v class=%s value=%v\n", vm, r.Class, r.Value)
		if r.Err != nil {
			fmt.Println(r.Err)
		}
		for _, l := range r.Logs {
			fmt.Println("  log:", l)
		}
	}
}
