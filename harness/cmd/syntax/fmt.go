package main

import (
	"encoding/json"
	"errors"
	"fmt"
	"os"
	"reflect"
	"regexp"
	"runtime"
	"sort"
	"strconv"
	"strings"
	"sync"

	"github.com/onflow/cadence/formatter"
	"github.com/onflow/cadence/parser/lexer"

	"verifharness/util"
)

// ---- template tokens: the gaps between them are the syntactic positions of a form

type tmplTok struct{ start, end int }

var multiOps = []string{"<-!", "<->", "<-", "??", "?.", "==", "!=", "<=", ">=", "&&", "||", "<<", ">>", "->", "as?", "as!", "\\("}

func isWordByte(c byte) bool {
	return c == '_' || c >= '0' && c <= '9' || c >= 'a' && c <= 'z' || c >= 'A' && c <= 'Z'
}

func tmplTokens(t string) []tmplTok {
	var toks []tmplTok
	for i := 0; i < len(t); {
		c := t[i]
		switch {
		case c == ' ' || c == '\n' || c == '\t':
			i++
		case (c == '~' || c == '$') && i+1 < len(t):
			toks = append(toks, tmplTok{i, i + 2})
			i += 2
		case isWordByte(c):
			j := i
			for j < len(t) && isWordByte(t[j]) {
				j++
			}
			// as? / as!
			if t[i:j] == "as" && j < len(t) && (t[j] == '?' || t[j] == '!') {
				j++
			}
			toks = append(toks, tmplTok{i, j})
			i = j
		case c == '"':
			j := i + 1
			for j < len(t) && t[j] != '"' {
				if t[j] == '\\' && j+1 < len(t) {
					if t[j+1] == '(' {
						break
					}
					j++
				}
				j++
			}
			if j < len(t) && t[j] == '"' {
				j++
			}
			toks = append(toks, tmplTok{i, j})
			i = j
		default:
			n := 1
			for _, op := range multiOps {
				if strings.HasPrefix(t[i:], op) {
					n = len(op)
					break
				}
			}
			toks = append(toks, tmplTok{i, i + n})
			i += n
		}
	}
	return toks
}

const gapMarker = "\x00G%d\x00"

// renderMarked renders t; in the template of `target` the gaps listed in `gaps` are marked.
// It returns the marked source, the number of gaps of the target and the neighbouring template tokens of each marked gap.
func (st *SigTable) renderMarked(t, target *Term, gaps []int) (string, int, []string, error) {
	var ngaps int
	var between []string
	var rec func(t *Term, sb *strings.Builder) error
	rec = func(t *Term, sb *strings.Builder) error {
		s := st.Sigs[t.Name]
		if s == nil {
			return fmt.Errorf("unknown form %q", t.Name)
		}
		tm := s.Tmpl
		marks := map[int][]int{} // template offset -> marker numbers
		if t == target {
			toks := tmplTokens(tm)
			ngaps = len(toks) + 1
			between = make([]string, len(gaps))
			for gi, g := range gaps {
				if g >= ngaps {
					continue
				}
				off := len(tm)
				prev, next := "^", "$"
				if g < len(toks) {
					off = toks[g].start
					next = tm[toks[g].start:toks[g].end]
				} else if len(toks) > 0 {
					off = toks[len(toks)-1].end
				}
				if g > 0 && g-1 < len(toks) {
					prev = tm[toks[g-1].start:toks[g-1].end]
				}
				between[gi] = prev + "|" + next
				marks[off] = append(marks[off], gi)
			}
		}
		for i := 0; i <= len(tm); i++ {
			for _, gi := range marks[i] {
				fmt.Fprintf(sb, gapMarker, gi)
			}
			if i == len(tm) {
				break
			}
			c := tm[i]
			if c == '~' && i+1 < len(tm) && tm[i+1] >= '1' && tm[i+1] <= '9' {
				k := int(tm[i+1] - '1')
				if k >= len(t.Kids) {
					return fmt.Errorf("template of %q refers to child %d", t.Name, k+1)
				}
				if err := rec(t.Kids[k], sb); err != nil {
					return err
				}
				i++
				for _, gi := range marks[i] { // a gap right after the first byte of `~n` cannot exist
					_ = gi
				}
				continue
			}
			sb.WriteByte(c)
		}
		return nil
	}
	var sb strings.Builder
	if err := rec(t, &sb); err != nil {
		return "", 0, nil, err
	}
	return sb.String(), ngaps, between, nil
}

func numberIdents(raw string) string {
	var out strings.Builder
	nx, nt := 0, 0
	for i := 0; i < len(raw); i++ {
		if raw[i] == '$' && i+1 < len(raw) {
			switch raw[i+1] {
			case 'x':
				nx++
				out.WriteString("x" + strconv.Itoa(nx))
				i++
				continue
			case 'T':
				nt++
				out.WriteString("T" + strconv.Itoa(nt))
				i++
				continue
			case 'U':
				out.WriteString(rawUnicode)
				i++
				continue
			}
		}
		out.WriteByte(raw[i])
	}
	return out.String()
}

func commentText(kind string, n int) (string, bool) {
	tok := "c" + strconv.Itoa(n)
	switch kind {
	case "block":
		return "/* " + tok + " */", false
	case "line":
		return "// " + tok, true
	case "doc-line":
		return "/// " + tok, true
	case "doc-block":
		return "/** " + tok + " */", false
	}
	return "/* " + tok + " */", false
}

func layoutText(layout, comment string, needsNL bool) string {
	nl := ""
	if needsNL {
		nl = "\n"
	}
	switch layout {
	case "own-line":
		return "\n" + comment + "\n"
	case "blank-before":
		return "\n\n" + comment + "\n"
	case "blank-after":
		return "\n" + comment + "\n\n"
	case "semi-before":
		return " ; " + comment + nl + " "
	case "semi-after":
		return " " + comment + nl + " ; "
	}
	return " " + comment + nl + " "
}

// ---- comments of a source, from the real token stream: line comments and (nested) block comments
var tokRe = regexp.MustCompile(`c\d+`)

func commentsOf(src []byte) (res [][2]string, ok bool) {
	defer func() {
		if r := recover(); r != nil {
			ok = false
		}
	}()
	ts, err := lexer.Lex(src, nil)
	if err != nil {
		return nil, false
	}
	defer ts.Reclaim()
	depth, start := 0, 0
	for {
		tok := ts.Next()
		switch tok.Type {
		case lexer.TokenEOF:
			return res, depth == 0
		case lexer.TokenError:
			return res, false
		case lexer.TokenLineComment:
			text := string(src[tok.StartPos.Offset : tok.EndPos.Offset+1])
			res = append(res, [2]string{tokRe.FindString(text), text})
		case lexer.TokenBlockCommentStart:
			if depth == 0 {
				start = tok.StartPos.Offset
			}
			depth++
		case lexer.TokenBlockCommentEnd:
			depth--
			if depth == 0 {
				text := string(src[start : tok.EndPos.Offset+1])
				res = append(res, [2]string{tokRe.FindString(text), text})
			}
		}
	}
}

// sortImports: the import declarations of a program (AST JSON) in canonical order, in the places where imports stood
func sortImports(v any) any {
	m, ok := v.(map[string]any)
	if !ok {
		return v
	}
	decls, ok := m["Declarations"].([]any)
	if !ok {
		return v
	}
	var idx []int
	var imps []any
	for i, d := range decls {
		if dm, ok := d.(map[string]any); ok && dm["Type"] == "ImportDeclaration" {
			idx = append(idx, i)
			imps = append(imps, d)
		}
	}
	sort.SliceStable(imps, func(a, b int) bool {
		x, _ := json.Marshal(imps[a])
		y, _ := json.Marshal(imps[b])
		return string(x) < string(y)
	})
	out := make([]any, len(decls))
	copy(out, decls)
	for k, i := range idx {
		out[i] = imps[k]
	}
	c := make(map[string]any, len(m))
	for k, e := range m {
		c[k] = e
	}
	c["Declarations"] = out
	return c
}

type fmtOpt struct {
	ID          int    `json:"id"`
	Width       int    `json:"width"`
	IndentChar  string `json:"indentChar"`
	IndentCount int    `json:"indentCount"`
	SortImports bool   `json:"sortImports"`
	StripSemis  bool   `json:"stripSemicolons"`
	KeepBlank   int    `json:"keepBlank"`
}

type fmtPlace struct {
	Gaps   []int    `json:"gaps"`
	Kinds  []string `json:"kinds"`
	Layout string   `json:"layout"`
	Opt    fmtOpt   `json:"opt"`
	Seps   []string `json:"seps"` // a RUN of comments in one gap: separators between consecutive comments (nl | blank)
}

// runText lays out a run of comments in one gap: the first one on the previous token's line (inline) or on its
// own line, consecutive ones separated by a line break or a blank line, a line break after the last one.
func runText(pl fmtPlace) string {
	var sb strings.Builder
	if pl.Layout == "inline" {
		sb.WriteString(" ")
	} else {
		sb.WriteString("\n")
	}
	for i, k := range pl.Kinds {
		text, _ := commentText(k, i+1)
		sb.WriteString(text)
		if i < len(pl.Seps) {
			if pl.Seps[i] == "blank" {
				sb.WriteString("\n\n")
			} else {
				sb.WriteString("\n")
			}
		}
	}
	sb.WriteString("\n")
	return sb.String()
}

// observation judged by TLC (Format.tla Conforms / Reasons)
type fmtObs struct {
	ID     int         `json:"id"`
	Err    bool        `json:"err"`
	Parses bool        `json:"parses"`
	AstEq  bool        `json:"asteq"`
	Cin    [][2]string `json:"cin"`
	Cout   [][2]string `json:"cout"`
	Err2   bool        `json:"err2"`
	Fixed  bool        `json:"fixed"`
}

type fmtDetail struct {
	ID       int      `json:"id"`
	Form     string   `json:"form"`
	Parent   string   `json:"parent"`
	Pos      string   `json:"pos"` // neighbouring template tokens of the gap(s): prev|next
	Gaps     string   `json:"gaps"`
	Kinds    string   `json:"kinds"`
	Layout   string   `json:"layout"`
	Seps     string   `json:"seps"`     // "" for separate gaps; "nl", "blank+nl", ... for a run of comments in one gap
	Comments int      `json:"comments"` // number of comments placed
	Opt      int      `json:"opt"`
	Src      string   `json:"src"`
	Out      string   `json:"out"`
	Out2     string   `json:"out2,omitempty"`
	ErrClass string   `json:"errclass,omitempty"`
	ErrMsg   string   `json:"errmsg,omitempty"`
	Err2Msg  string   `json:"err2msg,omitempty"`
	AstDiff  string   `json:"astdiff,omitempty"`
	Forms    []string `json:"forms"`
}

type fmtSummary struct {
	Summary      bool           `json:"summary"`
	Cases        int            `json:"cases"`
	NoSuchGap    int            `json:"no_such_gap"`
	InputReject  int            `json:"input_rejected_by_parser"`
	NotAComment  int            `json:"inserted_text_is_not_a_comment"`
	Observations int            `json:"observations"`
	FormatErrors map[string]int `json:"format_errors"`
	Positions    int            `json:"distinct_positions"`
	Forms        int            `json:"forms"`
	Options      int            `json:"options"`
	Samples      []fmtDetail    `json:"samples"`
}

func errClass(err error) string {
	msg := err.Error()
	switch {
	case errors.Is(err, formatter.ErrParse):
		return "parse"
	case strings.Contains(msg, "orphaned comments"):
		return "orphaned-comments"
	case strings.Contains(msg, "round-trip verification"):
		return "round-trip-verification"
	case strings.Contains(msg, "rewrite failed"):
		return "rewrite"
	case errors.Is(err, formatter.ErrInternal):
		return "internal"
	}
	return "other"
}

func safeFormat(src []byte, o formatter.Options) (out []byte, err error) {
	defer func() {
		if r := recover(); r != nil {
			out, err = nil, fmt.Errorf("PANIC: %v", r)
		}
	}()
	return formatter.Format(src, o)
}

// fmtMain: syntax fmt <obs.ndjson> <details.ndjson> <tlc.out>...
func fmtMain(args []string) {
	if len(args) < 3 {
		fmt.Fprintln(os.Stderr, "usage: syntax fmt <obs.ndjson> <details.ndjson> <tlc.out>...")
		os.Exit(2)
	}
	obsOut := util.NewOut(args[0])
	detOut := util.NewOut(args[1])
	defer obsOut.Close()
	defer detOut.Close()
	type job struct {
		st  *SigTable
		obj map[string]any
	}
	jobs := make(chan job, 1024)
	var mu sync.Mutex
	sum := fmtSummary{Summary: true, FormatErrors: map[string]int{}}
	positions := map[string]bool{}
	forms := map[string]bool{}
	opts := map[int]bool{}
	nextID := 0
	var wg sync.WaitGroup
	nw := runtime.NumCPU()
	if nw > 8 {
		nw = 8
	}
	fail := func(msg string) {
		fmt.Fprintln(os.Stderr, "syntax fmt:", msg)
		os.Exit(2)
	}
	for w := 0; w < nw; w++ {
		wg.Add(1)
		go func() {
			defer wg.Done()
			for j := range jobs {
				st := j.st
				c, err := caseFromObj(st, j.obj)
				if err != nil {
					fail(err.Error())
				}
				pb, _ := json.Marshal(j.obj["place"])
				var pl fmtPlace
				if err := json.Unmarshal(pb, &pl); err != nil {
					fail(err.Error())
				}
				ti := int(j.obj["target"].(float64))
				// the target node: the ti-th node on the spine (the spine continues in the slot recorded in sp)
				spv := j.obj["sp"].([]any)
				node := c.Term
				parent := ""
				for k := 1; k < ti; k++ {
					slot := int(spv[k-1].([]any)[1].(float64))
					parent = node.Name
					node = node.Kids[slot-1]
				}
				marked, ngaps, between, err := st.renderMarked(c.Term, node, pl.Gaps)
				if err != nil {
					fail(err.Error())
				}
				mu.Lock()
				sum.Cases++
				mu.Unlock()
				skip := false
				for _, g := range pl.Gaps {
					if g >= ngaps {
						skip = true
					}
				}
				if skip {
					mu.Lock()
					sum.NoSuchGap++
					mu.Unlock()
					continue
				}
				src := marked
				if len(pl.Seps) > 0 {
					src = strings.Replace(src, fmt.Sprintf(gapMarker, 0), runText(pl), 1)
				} else {
					for gi := range pl.Gaps {
						text, nl := commentText(pl.Kinds[gi], gi+1)
						src = strings.Replace(src, fmt.Sprintf(gapMarker, gi), layoutText(pl.Layout, text, nl), 1)
					}
				}
				src = numberIdents(src)
				if _, err := parseSrc(src); err != nil {
					mu.Lock()
					sum.InputReject++
					mu.Unlock()
					continue
				}
				cin, ok := commentsOf([]byte(src))
				if !ok {
					mu.Lock()
					sum.InputReject++
					mu.Unlock()
					continue
				}
				if len(cin) != len(pl.Kinds) {
					// the inserted text ended up inside a string literal (or merged): not a comment placement
					mu.Lock()
					sum.NotAComment++
					mu.Unlock()
					continue
				}
				o := formatter.Default()
				o.LineWidth, o.IndentCharacter, o.IndentCount = pl.Opt.Width, pl.Opt.IndentChar, pl.Opt.IndentCount
				o.SortImports, o.StripSemicolons, o.KeepBlankLines = pl.Opt.SortImports, pl.Opt.StripSemis, pl.Opt.KeepBlank
				gs, ks := make([]string, len(pl.Gaps)), strings.Join(pl.Kinds, "+")
				for i, g := range pl.Gaps {
					gs[i] = strconv.Itoa(g)
				}
				det := fmtDetail{Form: node.Name, Parent: parent, Pos: strings.Join(between, " & "), Gaps: strings.Join(gs, "+"), Kinds: ks,
					Layout: pl.Layout, Seps: strings.Join(pl.Seps, "+"), Comments: len(pl.Kinds), Opt: pl.Opt.ID, Src: src, Forms: c.Forms}
				obs := fmtObs{Cin: cin, Cout: [][2]string{}}
				out, ferr := safeFormat([]byte(src), o)
				if ferr != nil {
					obs.Err = true
					det.ErrClass, det.ErrMsg = errClass(ferr), firstLine(ferr.Error())
					if strings.HasPrefix(ferr.Error(), "PANIC") {
						det.ErrClass = "panic"
					}
				} else {
					det.Out = string(out)
					p1, _ := parseSrc(src)
					p2, perr := parseSrc(string(out))
					if perr == nil {
						obs.Parses = true
						a1, e1 := astJSON(p1)
						a2, e2 := astJSON(p2)
						if e1 != nil || e2 != nil {
							fail("AST JSON failed")
						}
						n1, n2 := sortImports(a1), sortImports(a2)
						obs.AstEq = reflect.DeepEqual(n1, n2)
						if !obs.AstEq {
							path, d := firstDiff("", n1, n2)
							det.AstDiff = idxRe.ReplaceAllString(path, "") + ": " + d
						}
					} else {
						det.AstDiff = firstLine(perr.Error())
					}
					if cout, ok := commentsOf(out); ok && cout != nil {
						obs.Cout = cout
					}
					out2, ferr2 := safeFormat(out, o)
					if ferr2 != nil {
						obs.Err2 = true
						det.Err2Msg = firstLine(ferr2.Error())
					} else {
						obs.Fixed = string(out2) == string(out)
						if !obs.Fixed {
							det.Out2 = string(out2)
						}
					}
				}
				mu.Lock()
				nextID++
				obs.ID, det.ID = nextID, nextID
				sum.Observations++
				if obs.Err {
					sum.FormatErrors[det.ErrClass]++
				}
				positions[det.Form+"@"+det.Pos] = true
				forms[det.Form] = true
				opts[pl.Opt.ID] = true
				if len(sum.Samples) < 5 && !obs.Err && nextID%1777 == 5 {
					sum.Samples = append(sum.Samples, det)
				}
				// both files in the same order: line i of obs = line i of details
				obsOut.Write(obs)
				detOut.Write(det)
				mu.Unlock()
			}
		}()
	}
	_, err := readTLC(args[2:], func(st *SigTable, obj map[string]any) error {
		if _, ok := obj["place"]; !ok {
			return nil
		}
		jobs <- job{st, obj}
		return nil
	})
	close(jobs)
	wg.Wait()
	if err != nil {
		fail(err.Error())
	}
	sum.Positions, sum.Forms, sum.Options = len(positions), len(forms), len(opts)
	detOut.Write(sum)
}
