// Command syntax: drivers of the "syntax" family (C37 lexer/parser totality and positions,
// C38 pretty-print round trip, C39 formatter). Sub-commands:
//
//	syntax pp  <terms.ndjson> <results.ndjson>      C38: render TLC terms, parse, print, re-parse, compare
//	syntax fmt <cases.ndjson> <results.ndjson>      C39: render TLC placement cases, run the formatter
//	syntax lex <outdir>                             C37: supervisor: generate inputs, run workers, write traces
//	syntax lexworker <inputs> <from> <trace> <prog> C37: worker (one process, pooled lexer history)
//	syntax probe                                    ad-hoc lexer probe (stdin lines, Go-quoted)
package main

import (
	"fmt"
	"os"
)

func main() {
	if len(os.Args) < 2 {
		fmt.Fprintln(os.Stderr, "usage: syntax pp|fmt|lex|lexworker|probe ...")
		os.Exit(2)
	}
	switch os.Args[1] {
	case "pp":
		ppMain(os.Args[2:])
	case "fmt":
		fmtMain(os.Args[2:])
	case "lex":
		lexMain(os.Args[2:])
	case "lexworker":
		lexWorkerMain(os.Args[2:])
	case "probe":
		probeMain(os.Args[2:])
	default:
		fmt.Fprintln(os.Stderr, "unknown sub-command", os.Args[1])
		os.Exit(2)
	}
}
