package main

import (
	"bufio"
	"encoding/json"
	"fmt"
	"os"
	"strconv"
	"strings"
)

// Sig is one signature of the AstShapes specification: <<name, sort, template, slots>>.
type Sig struct {
	Name  string
	Sort  string
	Tmpl  string
	Slots []string
}

// Term is <<name, children...>>.
type Term struct {
	Name string
	Kids []*Term
}

type SigTable struct {
	Sigs     map[string]*Sig
	Defaults map[string]*Term
	Accepts  map[string]map[string]bool // slot sort -> sorts of forms that may stand there
}

// fits reports whether form t may stand in a slot of sort slot.
func (st *SigTable) fits(t *Term, slot string) bool {
	s := st.Sigs[t.Name]
	if s == nil {
		return false
	}
	if a, ok := st.Accepts[slot]; ok {
		return a[s.Sort]
	}
	return s.Sort == slot
}

func (t *Term) clone() *Term {
	c := &Term{Name: t.Name}
	for _, k := range t.Kids {
		c.Kids = append(c.Kids, k.clone())
	}
	return c
}

// Minimize shrinks a failing term while `fails` keeps holding: sub-terms are replaced by the
// default leaf of their slot, or by one of their own children where the sorts allow it.
// The result names the forms that are needed for the failure (the semantic class of a finding).
func (st *SigTable) Minimize(t *Term, fails func(*Term) bool) *Term {
	cur := t.clone()
	budget := 400
	for changed := true; changed && budget > 0; {
		changed = false
		type pos struct {
			parent *Term
			slot   int
		}
		var all []pos
		var walk func(n *Term)
		walk = func(n *Term) {
			for i := range n.Kids {
				all = append(all, pos{n, i})
				walk(n.Kids[i])
			}
		}
		walk(cur)
		for _, ps := range all {
			n := ps.parent.Kids[ps.slot]
			slotSort := st.Sigs[ps.parent.Name].Slots[ps.slot]
			var cands []*Term
			for _, k := range n.Kids {
				if st.fits(k, slotSort) {
					cands = append(cands, k)
				}
			}
			if d := st.Defaults[slotSort]; d != nil && n.String() != d.String() {
				cands = append(cands, d)
			}
			for _, c := range cands {
				budget--
				ps.parent.Kids[ps.slot] = c
				if fails(cur) {
					changed = true
					break
				}
				ps.parent.Kids[ps.slot] = n
			}
			if changed || budget <= 0 {
				break
			}
		}
	}
	return cur
}

func termFromJSON(v any) (*Term, error) {
	arr, ok := v.([]any)
	if !ok || len(arr) == 0 {
		return nil, fmt.Errorf("term is not a non-empty array: %v", v)
	}
	name, ok := arr[0].(string)
	if !ok {
		return nil, fmt.Errorf("term head is not a string: %v", v)
	}
	t := &Term{Name: name}
	for _, k := range arr[1:] {
		kt, err := termFromJSON(k)
		if err != nil {
			return nil, err
		}
		t.Kids = append(t.Kids, kt)
	}
	return t, nil
}

func (t *Term) String() string {
	if len(t.Kids) == 0 {
		return t.Name
	}
	parts := make([]string, len(t.Kids))
	for i, k := range t.Kids {
		parts[i] = k.String()
	}
	return t.Name + "(" + strings.Join(parts, ",") + ")"
}

// apply builds sig(defaults...) with child i (1-based; 0 = none) replaced by u.
func (st *SigTable) apply(name string, i int, u *Term) (*Term, error) {
	s := st.Sigs[name]
	if s == nil {
		return nil, fmt.Errorf("unknown form %q", name)
	}
	t := &Term{Name: name}
	for j, srt := range s.Slots {
		if j+1 == i {
			t.Kids = append(t.Kids, u)
		} else {
			d := st.Defaults[srt]
			if d == nil {
				return nil, fmt.Errorf("no default for sort %q", srt)
			}
			t.Kids = append(t.Kids, d)
		}
	}
	return t, nil
}

// render substitutes children into the templates; fresh identifiers are numbered afterwards.
func (st *SigTable) render(t *Term, sb *strings.Builder) error {
	s := st.Sigs[t.Name]
	if s == nil {
		return fmt.Errorf("unknown form %q", t.Name)
	}
	if len(t.Kids) != len(s.Slots) {
		return fmt.Errorf("form %q has %d children, signature has %d", t.Name, len(t.Kids), len(s.Slots))
	}
	tm := s.Tmpl
	for i := 0; i < len(tm); i++ {
		c := tm[i]
		if c == '~' && i+1 < len(tm) && tm[i+1] >= '1' && tm[i+1] <= '9' {
			k := int(tm[i+1] - '1')
			if k >= len(t.Kids) {
				return fmt.Errorf("template of %q refers to child %d", t.Name, k+1)
			}
			if err := st.render(t.Kids[k], sb); err != nil {
				return err
			}
			i++
			continue
		}
		sb.WriteByte(c)
	}
	return nil
}

const rawUnicode = "é🇺🇸 ñ"

// Render gives the source text of a term: templates expanded, $x/$T numbered left to right.
func (st *SigTable) Render(t *Term) (string, error) {
	var sb strings.Builder
	if err := st.render(t, &sb); err != nil {
		return "", err
	}
	raw := sb.String()
	var out strings.Builder
	nx, nt := 0, 0
	for i := 0; i < len(raw); i++ {
		if raw[i] == '$' && i+1 < len(raw) {
			switch raw[i+1] {
			case 'x':
				nx++
				out.WriteString("x" + strconv.Itoa(nx))
				i++
				continue
			case 'T':
				nt++
				out.WriteString("T" + strconv.Itoa(nt))
				i++
				continue
			case 'U':
				out.WriteString(rawUnicode)
				i++
				continue
			}
		}
		out.WriteByte(raw[i])
	}
	return out.String(), nil
}

// canonical contexts: the smallest program in which a form of a given sort can stand
var contexts = map[string]string{
	"E": `["rootE",0]`, "T": `["rootE",["cast-as",["id"],0]]`, "A": `["rootE",["cast-as",["id"],0]]`,
	"S": `["prog1",["funvoid",["acc-all"],["p0"],0]]`, "F": `["prog1",0]`, "Q": `["prog1",0]`, "D": `["prog1",0]`,
	"M": `["prog1",["struct",["acc-all"],0]]`, "I": `["prog1",["structI",["acc-all"],0]]`, "N": `["prog1",["enum",["acc-all"],0]]`,
	"P": `["prog1",["funvoid",["acc-all"],0,["idstmt"]]]`, "K": `["prog1",["funpre",["acc-all"],0,["idstmt"]]]`,
	"X": `["prog1",["funvoid",0,["p0"],["idstmt"]]]`,
}

func ctxFromJSON(v any, hole *Term) *Term {
	if f, ok := v.(float64); ok && f == 0 {
		return hole
	}
	arr := v.([]any)
	t := &Term{Name: arr[0].(string)}
	for _, k := range arr[1:] {
		t.Kids = append(t.Kids, ctxFromJSON(k, hole))
	}
	return t
}

// InContext puts a form into the canonical context of its sort (nil if there is none).
func (st *SigTable) InContext(n *Term) *Term {
	s := st.Sigs[n.Name]
	if s == nil {
		return nil
	}
	c, ok := contexts[s.Sort]
	if !ok {
		return nil
	}
	var v any
	if err := json.Unmarshal([]byte(c), &v); err != nil {
		return nil
	}
	t := ctxFromJSON(v, n)
	var ok2 func(t *Term) bool
	ok2 = func(t *Term) bool {
		if st.Sigs[t.Name] == nil {
			return false
		}
		for _, k := range t.Kids {
			if !ok2(k) {
				return false
			}
		}
		return true
	}
	if !ok2(t) {
		return nil
	}
	return t
}

// Culprit: the smallest sub-term of a minimised failing term that still fails in the canonical
// context of its sort; the whole term if there is none.
func (st *SigTable) Culprit(min *Term, fails func(*Term) bool) string {
	best := min
	bestSize := 1 << 30
	found := false
	var size func(t *Term) int
	size = func(t *Term) int {
		n := 1
		for _, k := range t.Kids {
			n += size(k)
		}
		return n
	}
	var walk func(n *Term)
	walk = func(n *Term) {
		for _, k := range n.Kids {
			walk(k)
		}
		if len(n.Kids) == 0 {
			return
		}
		if sz := size(n); sz < bestSize {
			if c := st.InContext(n); c != nil && fails(c) {
				best, bestSize, found = n, sz, true
			}
		}
	}
	walk(min)
	if !found {
		return min.String()
	}
	return best.String()
}

// Case is one enumerated program.
type Case struct {
	Term  *Term
	Spine string // semantic path: forms (and slots) from the root to the leaf
	Forms []string
}

// tlcLine decodes one line printed by PrintT(ToJson(x)) (a quoted TLA+ string holding JSON).
func tlcLine(line string) (map[string]any, bool) {
	if len(line) < 4 || line[0] != '"' || line[1] != '{' {
		return nil, false
	}
	var inner string
	if err := json.Unmarshal([]byte(line), &inner); err != nil {
		return nil, false
	}
	var obj map[string]any
	if err := json.Unmarshal([]byte(inner), &obj); err != nil {
		return nil, false
	}
	return obj, true
}

// readTLC reads TLC output files: the signature table and the enumerated cases (fed to f).
func readTLC(paths []string, f func(st *SigTable, obj map[string]any) error) (*SigTable, error) {
	st := &SigTable{Sigs: map[string]*Sig{}, Defaults: map[string]*Term{}, Accepts: map[string]map[string]bool{}}
	var pending []map[string]any
	have := false
	for _, p := range paths {
		fh, err := os.Open(p)
		if err != nil {
			return nil, err
		}
		sc := bufio.NewScanner(fh)
		sc.Buffer(make([]byte, 1<<20), 1<<26)
		for sc.Scan() {
			obj, ok := tlcLine(sc.Text())
			if !ok {
				continue
			}
			if sigs, ok := obj["sigs"]; ok {
				if have {
					// every TLC output repeats the same signature table; the first copy is in use by the
					// worker goroutines already -- writing the maps again would race with their reads
					continue
				}
				for _, sv := range sigs.([]any) {
					a := sv.([]any)
					s := &Sig{Name: a[0].(string), Sort: a[1].(string), Tmpl: a[2].(string)}
					if sl, ok := a[3].([]any); ok {
						for _, x := range sl {
							s.Slots = append(s.Slots, x.(string))
						}
					}
					st.Sigs[s.Name] = s
				}
				for srt, dv := range obj["defaults"].(map[string]any) {
					t, err := termFromJSON(dv)
					if err != nil {
						return nil, err
					}
					st.Defaults[srt] = t
				}
				if acc, ok := obj["accepts"].(map[string]any); ok {
					for srt, lst := range acc {
						m := map[string]bool{}
						for _, x := range lst.([]any) {
							m[x.(string)] = true
						}
						st.Accepts[srt] = m
					}
				}
				have = true
				for _, o := range pending {
					if err := f(st, o); err != nil {
						return nil, err
					}
				}
				pending = nil
				continue
			}
			if !have {
				pending = append(pending, obj)
				continue
			}
			if err := f(st, obj); err != nil {
				return nil, err
			}
		}
		fh.Close()
		if err := sc.Err(); err != nil {
			return nil, err
		}
	}
	if !have {
		return nil, fmt.Errorf("no signature table in TLC output")
	}
	return st, nil
}

// caseFromObj turns {"sp":[[form,slot],...],"leaf":form} or {"full":term} into a Case.
func caseFromObj(st *SigTable, obj map[string]any) (*Case, error) {
	if fv, ok := obj["full"]; ok {
		t, err := termFromJSON(fv)
		if err != nil {
			return nil, err
		}
		c := &Case{Term: t, Spine: "full:" + t.String()}
		var walk func(t *Term)
		walk = func(t *Term) {
			if len(t.Kids) > 0 {
				c.Forms = append(c.Forms, t.Name)
			}
			for _, k := range t.Kids {
				walk(k)
			}
		}
		walk(t)
		return c, nil
	}
	leaf, _ := obj["leaf"].(string)
	spv, _ := obj["sp"].([]any)
	if leaf == "" {
		return nil, fmt.Errorf("case without leaf: %v", obj)
	}
	t := &Term{Name: leaf}
	names := []string{leaf}
	forms := []string{leaf}
	for i := len(spv) - 1; i >= 0; i-- {
		pr := spv[i].([]any)
		name := pr[0].(string)
		slot := int(pr[1].(float64))
		var err error
		t, err = st.apply(name, slot, t)
		if err != nil {
			return nil, err
		}
		names = append([]string{name + "." + strconv.Itoa(slot)}, names...)
		forms = append([]string{name}, forms...)
	}
	return &Case{Term: t, Spine: strings.Join(names, "/"), Forms: forms}, nil
}
