package main

import (
	"bufio"
	"fmt"
	"os"
	"strconv"

	"github.com/onflow/cadence/ast"
	"github.com/onflow/cadence/parser"
	"github.com/onflow/cadence/parser/lexer"
)

func probeMain(args []string) {
	sc := bufio.NewScanner(os.Stdin)
	for sc.Scan() {
		in, err := strconv.Unquote(sc.Text())
		if err != nil {
			fmt.Println("bad quote", sc.Text())
			continue
		}
		ts, err := lexer.Lex([]byte(in), nil)
		fmt.Printf("%q len=%d err=%v\n", in, len(in), err)
		for {
			tok := ts.Next()
			fmt.Printf("   %-14v [%d,%d] %d:%d - %d:%d %v\n", tok.Type, tok.StartPos.Offset, tok.EndPos.Offset, tok.StartPos.Line, tok.StartPos.Column, tok.EndPos.Line, tok.EndPos.Column, tok.SpaceOrError)
			if tok.Type == lexer.TokenEOF {
				break
			}
		}
		ts.Reclaim()
		exact := make([]byte, len(in))
		copy(exact, in)
		_, perr := parser.ParseProgram(nil, exact, parser.Config{})
		if perr != nil {
			if pe, ok := perr.(parser.Error); ok {
				for _, e := range pe.Errors {
					if hp, ok := e.(ast.HasPosition); ok {
						s, en := hp.StartPosition(), hp.EndPosition(nil)
						fmt.Printf("   ERR %T %d(%d:%d)-%d(%d:%d) %v\n", e, s.Offset, s.Line, s.Column, en.Offset, en.Line, en.Column, e)
					} else {
						fmt.Printf("   ERR(nopos) %T %v\n", e, e)
					}
				}
			} else {
				fmt.Printf("   ERR(other) %T %v\n", perr, perr)
			}
		}
	}
}
