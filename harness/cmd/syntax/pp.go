package main

import (
	"encoding/json"
	"fmt"
	"os"
	"reflect"
	"regexp"
	"runtime"
	"sort"
	"strings"
	"sync"

	"github.com/turbolent/prettier"

	"github.com/onflow/cadence/ast"
	"github.com/onflow/cadence/parser"

	"verifharness/util"
)

// ---- AST projection: JSON without positions, comments and doc strings

func stripAST(v any) any {
	switch x := v.(type) {
	case map[string]any:
		out := make(map[string]any, len(x))
		for k, e := range x {
			if strings.HasSuffix(k, "Pos") || strings.HasSuffix(k, "Position") || strings.HasSuffix(k, "Range") ||
				k == "Comments" || k == "DocString" {
				continue
			}
			out[k] = stripAST(e)
		}
		return out
	case []any:
		out := make([]any, len(x))
		for i, e := range x {
			out[i] = stripAST(e)
		}
		return out
	}
	return v
}

func astJSON(p *ast.Program) (any, error) {
	b, err := json.Marshal(p)
	if err != nil {
		return nil, err
	}
	var v any
	if err := json.Unmarshal(b, &v); err != nil {
		return nil, err
	}
	return stripAST(v), nil
}

func isEmptyBlock(v any) bool {
	m, ok := v.(map[string]any)
	if !ok {
		return false
	}
	if ty, _ := m["Type"].(string); ty != "Block" {
		return false
	}
	st, has := m["Statements"]
	if !has || st == nil {
		return true
	}
	arr, ok := st.([]any)
	return ok && len(arr) == 0
}

// Named deviations (AST identifications under which a difference is a KNOWN finding class):
//
//	empty-else-block                  an `else` block without statements = no `else`
//	empty-transaction-parameter-list  `transaction()` = `transaction`
var deviations = []string{"empty-else-block", "empty-transaction-parameter-list"}

func normalise(v any, dev map[string]bool) any {
	switch x := v.(type) {
	case map[string]any:
		out := make(map[string]any, len(x))
		ty, _ := x["Type"].(string)
		for k, e := range x {
			if dev["empty-else-block"] && k == "Else" && isEmptyBlock(e) {
				out[k] = nil
				continue
			}
			if dev["empty-transaction-parameter-list"] && k == "ParameterList" && ty == "TransactionDeclaration" {
				if m, ok := e.(map[string]any); ok {
					ps, _ := m["Parameters"].([]any)
					if len(ps) == 0 {
						out[k] = nil
						continue
					}
				}
			}
			out[k] = normalise(e, dev)
		}
		return out
	case []any:
		out := make([]any, len(x))
		for i, e := range x {
			out[i] = normalise(e, dev)
		}
		return out
	}
	return v
}

// classify names the smallest set of named deviations under which the two ASTs are equal ("other" if none).
func classify(a1, a2 any) (string, any, any) {
	for _, d := range deviations {
		dev := map[string]bool{d: true}
		if reflect.DeepEqual(normalise(a1, dev), normalise(a2, dev)) {
			return d, nil, nil
		}
	}
	all := map[string]bool{}
	for _, d := range deviations {
		all[d] = true
	}
	n1, n2 := normalise(a1, all), normalise(a2, all)
	if reflect.DeepEqual(n1, n2) {
		return strings.Join(deviations, "+"), nil, nil
	}
	return "other", n1, n2
}

var idxRe = regexp.MustCompile(`\[\d+\]`)

// firstDiff returns the JSON path of the first difference and a short description.
func firstDiff(path string, a, b any) (string, string) {
	switch x := a.(type) {
	case map[string]any:
		y, ok := b.(map[string]any)
		if !ok {
			return path, fmt.Sprintf("%s vs %s", brief(a), brief(b))
		}
		keys := make([]string, 0, len(x))
		for k := range x {
			keys = append(keys, k)
		}
		sort.Strings(keys)
		// the node type first: a different node kind is the most informative difference
		if tx, ty := x["Type"], y["Type"]; !reflect.DeepEqual(tx, ty) {
			return path + ".Type", fmt.Sprintf("%v vs %v", tx, ty)
		}
		for _, k := range keys {
			yv, has := y[k]
			if !has {
				return path + "." + k, "key missing after re-parse"
			}
			if p, d := firstDiff(path+"."+k, x[k], yv); p != "" {
				return p, d
			}
		}
		for k := range y {
			if _, has := x[k]; !has {
				return path + "." + k, "key only after re-parse"
			}
		}
		return "", ""
	case []any:
		y, ok := b.([]any)
		if !ok {
			return path, fmt.Sprintf("%s vs %s", brief(a), brief(b))
		}
		if len(x) != len(y) {
			return path, fmt.Sprintf("%d vs %d elements", len(x), len(y))
		}
		for i := range x {
			if p, d := firstDiff(fmt.Sprintf("%s[%d]", path, i), x[i], y[i]); p != "" {
				return p, d
			}
		}
		return "", ""
	}
	if !reflect.DeepEqual(a, b) {
		return path, fmt.Sprintf("%s vs %s", brief(a), brief(b))
	}
	return "", ""
}

func brief(v any) string {
	switch x := v.(type) {
	case map[string]any:
		if t, ok := x["Type"].(string); ok {
			return "<" + t + ">"
		}
		return "<object>"
	case []any:
		return fmt.Sprintf("<array %d>", len(x))
	case nil:
		return "null"
	}
	s := fmt.Sprintf("%v", v)
	if len(s) > 60 {
		s = s[:60] + "..."
	}
	return s
}

// ---- printers: the canonical printer (ast.Prettier = Program.String) and the same Doc laid out
// without flattening at two widths (what the formatter does with the Doc)

type printer struct {
	name string
	f    func(p *ast.Program) string
}

func docPrinter(width int) func(p *ast.Program) string {
	return func(p *ast.Program) string {
		var sb strings.Builder
		prettier.Prettier(&sb, p.Doc(ast.NopContext{}), width, "    ")
		return sb.String()
	}
}

var printers = []printer{
	{"canonical", func(p *ast.Program) string { return ast.Prettier(p) }},
	{"doc-w80", docPrinter(80)},
	{"doc-w24", docPrinter(24)},
}

type ppFail struct {
	ID      int      `json:"id"`
	Kind    string   `json:"kind"` // parse1 | render | reparse-fail | ast-diff | crash
	Printer string   `json:"printer,omitempty"`
	Spine   string   `json:"spine"`
	Forms   []string `json:"forms"`
	Culprit string   `json:"culprit,omitempty"` // minimised failing term: the forms needed for the failure
	Diff    string   `json:"diff,omitempty"`    // semantic class of the difference
	Where   string   `json:"where,omitempty"`   // AST path without indices
	Detail  string   `json:"detail,omitempty"`
	Src     string   `json:"src"`
	Printed string   `json:"printed,omitempty"`
	Err     string   `json:"err,omitempty"`
}

type ppSummary struct {
	Summary     bool           `json:"summary"`
	Terms       int            `json:"terms"`
	Parsed      int            `json:"parsed"`
	Parse1Fail  int            `json:"parse1_fail"`
	Evaluations int            `json:"evaluations"`
	Printers    []string       `json:"printers"`
	Forms       int            `json:"forms"`
	FormPairs   int            `json:"form_pairs"`
	NodeTypes   int            `json:"ast_node_types"`
	NodeList    []string       `json:"ast_node_type_list"`
	PrecPairs   int            `json:"precedence_pairs"`
	Samples     []ppSample     `json:"samples"`
	ByPrinter   map[string]int `json:"fail_by_printer"`
}

type ppSample struct {
	Spine   string `json:"spine"`
	Src     string `json:"src"`
	Printed string `json:"printed"`
}

func collectTypes(v any, into map[string]bool) {
	switch x := v.(type) {
	case map[string]any:
		if t, ok := x["Type"].(string); ok {
			into[t] = true
		}
		for _, e := range x {
			collectTypes(e, into)
		}
	case []any:
		for _, e := range x {
			collectTypes(e, into)
		}
	}
}

func parseSrc(src string) (p *ast.Program, err error) {
	defer func() {
		if r := recover(); r != nil {
			p, err = nil, fmt.Errorf("PANIC: %v", r)
		}
	}()
	return parser.ParseProgram(nil, []byte(src), parser.Config{})
}

// checkRoundTrip runs the property on one source. It returns the failures (one per printer at most).
func checkRoundTrip(prs []printer, id int, c *Case, src string, types map[string]bool, mu *sync.Mutex) (fails []ppFail, parsed bool, sample *ppSample) {
	mk := func(kind string) ppFail {
		return ppFail{ID: id, Kind: kind, Spine: c.Spine, Forms: c.Forms, Src: src}
	}
	p1, err := parseSrc(src)
	if err != nil {
		f := mk("parse1")
		f.Err = err.Error()
		return []ppFail{f}, false, nil
	}
	a1, err := astJSON(p1)
	if err != nil {
		f := mk("render")
		f.Err = "AST JSON: " + err.Error()
		return []ppFail{f}, false, nil
	}
	if types != nil {
		local := map[string]bool{}
		collectTypes(a1, local)
		mu.Lock()
		for k := range local {
			types[k] = true
		}
		mu.Unlock()
	}
	for _, pr := range prs {
		var printed string
		crashed := func() (msg string) {
			defer func() {
				if r := recover(); r != nil {
					msg = fmt.Sprintf("%v", r)
				}
			}()
			printed = pr.f(p1)
			return ""
		}()
		if crashed != "" {
			f := mk("crash")
			f.Printer, f.Err, f.Diff = pr.name, crashed, "printer-panic"
			fails = append(fails, f)
			continue
		}
		if sample == nil {
			sample = &ppSample{Spine: c.Spine, Src: src, Printed: printed}
		}
		p2, err := parseSrc(printed)
		if err != nil {
			f := mk("reparse-fail")
			f.Printer, f.Printed, f.Err, f.Diff = pr.name, printed, err.Error(), "printed-form-does-not-parse"
			fails = append(fails, f)
			continue
		}
		a2, err := astJSON(p2)
		if err != nil {
			f := mk("render")
			f.Err = "AST JSON: " + err.Error()
			fails = append(fails, f)
			continue
		}
		if reflect.DeepEqual(a1, a2) {
			continue
		}
		f := mk("ast-diff")
		f.Printer, f.Printed = pr.name, printed
		path, detail := firstDiff("", a1, a2)
		f.Where = idxRe.ReplaceAllString(path, "")
		f.Detail = path + ": " + detail
		// explained by a named deviation? otherwise locate the first difference that remains under all of them
		cls, n1, n2 := classify(a1, a2)
		f.Diff = cls
		if cls == "other" {
			path, detail = firstDiff("", n1, n2)
			f.Where = idxRe.ReplaceAllString(path, "")
			f.Detail = path + ": " + detail
		}
		fails = append(fails, f)
	}
	return fails, true, sample
}

// culprits found so far, per (kind, diff class): a later failure that contains one of them as a sub-term
// (and still fails with it in the canonical context) is attributed to it without a new search
var (
	culpritMu    sync.Mutex
	culpritCache = map[string]map[string]bool{}
)

func subTerms(t *Term, f func(*Term)) {
	for _, k := range t.Kids {
		subTerms(k, f)
	}
	f(t)
}

// minimise attaches to every failure the minimised failing term (same kind of failure, same printer).
func minimise(st *SigTable, c *Case, fails []ppFail) {
	memo := map[string]string{}
	for i := range fails {
		f := &fails[i]
		if f.Kind != "ast-diff" && f.Kind != "reparse-fail" && f.Kind != "crash" {
			continue
		}
		if f.Kind == "ast-diff" && f.Diff != "other" {
			continue // explained by a named deviation: the class is the finding
		}
		key := f.Kind + "|" + f.Diff
		if cp, ok := memo[key]; ok {
			f.Culprit = cp
			continue
		}
		var pr *printer
		for k := range printers {
			if printers[k].name == f.Printer {
				pr = &printers[k]
			}
		}
		test := func(t *Term) bool {
			src, err := st.Render(t)
			if err != nil {
				return false
			}
			fs, parsed, _ := checkRoundTrip([]printer{*pr}, 0, &Case{Term: t}, src, nil, nil)
			if !parsed {
				return false
			}
			for _, g := range fs {
				if g.Kind == f.Kind && g.Diff == f.Diff {
					return true
				}
			}
			return false
		}
		culpritMu.Lock()
		var known []string
		for k := range culpritCache[key] {
			known = append(known, k)
		}
		culpritMu.Unlock()
		if len(known) > 0 {
			set := map[string]bool{}
			for _, k := range known {
				set[k] = true
			}
			subTerms(c.Term, func(u *Term) {
				if f.Culprit != "" || len(u.Kids) == 0 {
					return
				}
				if us := u.String(); set[us] {
					if ctxt := st.InContext(u); ctxt != nil && test(ctxt) {
						f.Culprit = us
					}
				}
			})
		}
		if f.Culprit == "" {
			m := st.Minimize(c.Term, test)
			f.Culprit = st.Culprit(m, test)
			culpritMu.Lock()
			if culpritCache[key] == nil {
				culpritCache[key] = map[string]bool{}
			}
			culpritCache[key][f.Culprit] = true
			culpritMu.Unlock()
		}
		memo[key] = f.Culprit
	}
}

var binLevel = map[string]int{"||": 2, "&&": 3, "==": 4, "!=": 4, "<": 4, "<=": 4, ">": 4, ">=": 4, "??": 5, "|": 6, "^": 7, "&": 8,
	"<<": 9, ">>": 9, "+": 10, "-": 10, "*": 11, "/": 11, "%": 11}

func precPairs(t *Term, into map[string]bool) {
	if strings.HasPrefix(t.Name, "bin") && len(t.Kids) == 2 {
		for side, k := range t.Kids {
			if strings.HasPrefix(k.Name, "bin") && len(k.Kids) == 2 {
				into[fmt.Sprintf("%d/%d/%d", binLevel[t.Name[3:]], side, binLevel[k.Name[3:]])] = true
			}
		}
	}
	for _, k := range t.Kids {
		precPairs(k, into)
	}
}

// ppMain: syntax pp <results.ndjson> <tlc.out>...
func ppMain(args []string) {
	if len(args) < 2 {
		fmt.Fprintln(os.Stderr, "usage: syntax pp <results.ndjson> <tlc.out>...")
		os.Exit(2)
	}
	out := util.NewOut(args[0])
	defer out.Close()
	type job struct {
		id int
		c  *Case
	}
	jobs := make(chan job, 1024)
	var mu sync.Mutex
	sum := ppSummary{Summary: true, ByPrinter: map[string]int{}}
	for _, p := range printers {
		sum.Printers = append(sum.Printers, p.name)
	}
	types := map[string]bool{}
	forms := map[string]bool{}
	pairs := map[string]bool{}
	prec := map[string]bool{}
	var wg sync.WaitGroup
	nw := runtime.NumCPU()
	if nw > 8 {
		nw = 8
	}
	var st *SigTable
	for w := 0; w < nw; w++ {
		wg.Add(1)
		go func() {
			defer wg.Done()
			for j := range jobs {
				src, err := st.Render(j.c.Term)
				if err != nil {
					out.Write(ppFail{ID: j.id, Kind: "render", Spine: j.c.Spine, Err: err.Error()})
					continue
				}
				fails, parsed, sample := checkRoundTrip(printers, j.id, j.c, src, types, &mu)
				minimise(st, j.c, fails)
				mu.Lock()
				sum.Terms++
				if parsed {
					sum.Parsed++
					sum.Evaluations += len(printers)
				}
				for _, f := range fails {
					if f.Kind == "parse1" {
						sum.Parse1Fail++
					} else {
						sum.ByPrinter[f.Printer]++
					}
				}
				if sample != nil && (j.id%9973 == 17 || len(sum.Samples) == 0) && len(sum.Samples) < 6 {
					sum.Samples = append(sum.Samples, *sample)
				}
				mu.Unlock()
				for _, f := range fails {
					out.Write(f)
				}
			}
		}()
	}
	n := 0
	var err error
	st, err = readTLCWith(args[1:], &st, func(stt *SigTable, obj map[string]any) error {
		c, err := caseFromObj(stt, obj)
		if err != nil {
			return err
		}
		n++
		for i, f := range c.Forms {
			forms[f] = true
			if i > 0 {
				pairs[c.Forms[i-1]+">"+f] = true
			}
		}
		precPairs(c.Term, prec)
		jobs <- job{n, c}
		return nil
	})
	close(jobs)
	wg.Wait()
	if err != nil {
		fmt.Fprintln(os.Stderr, "syntax pp:", err)
		os.Exit(2)
	}
	sum.Forms, sum.FormPairs, sum.NodeTypes, sum.PrecPairs = len(forms), len(pairs), len(types), len(prec)
	for k := range types {
		sum.NodeList = append(sum.NodeList, k)
	}
	sort.Strings(sum.NodeList)
	out.Write(sum)
}

// readTLCWith publishes the table pointer before the first case is handed out (workers read *stp).
func readTLCWith(paths []string, stp **SigTable, f func(st *SigTable, obj map[string]any) error) (*SigTable, error) {
	return readTLC(paths, func(st *SigTable, obj map[string]any) error {
		if *stp == nil {
			*stp = st
		}
		return f(st, obj)
	})
}
