package main

import (
	"fmt"
	"math/rand"
	"strings"
)

// Input generator for C37 (seeded): grammar-based programs, mutations of them, token soup, targeted
// small cases (multi-byte characters, templates, unterminated literals) and large stress inputs.

type genInput struct {
	Kind string
	Data []byte
}

type gen struct{ r *rand.Rand }

func (g *gen) pick(xs ...string) string { return xs[g.r.Intn(len(xs))] }
func (g *gen) chance(p float64) bool    { return g.r.Float64() < p }

var uniBits = []string{"é", "ñ", "​", "🇺🇸", "😀", "日本", "\u0301", "ß"}

func (g *gen) ident() string {
	return g.pick("a", "b", "x", "y", "foo", "bar", "self", "result", "_z", "r1", "T", "R", "S", "Int", "String")
}

func (g *gen) ws() string {
	switch g.r.Intn(12) {
	case 0:
		return "\n"
	case 1:
		return "  "
	case 2:
		return "\t"
	case 3:
		return " /* c */ "
	case 4:
		return " // " + g.pick("note", "é", "x 😀", "") + "\n"
	case 5:
		return "\r\n"
	case 6:
		return " /* a /* nested " + g.pick("", "é", "\n") + " */ b */ "
	case 7:
		return g.pick("/*\n*/", "/* a\n*/", "/*\n\n*/", "/* /*\n*/ \n*/", "/**\n*/", "/*\n/* b */\n*/", "// l\n/* c\n*/", "/* c\n*/x", "\n/*\n*/\n")
	}
	return " "
}

func (g *gen) str() string {
	var sb strings.Builder
	sb.WriteByte('"')
	for i, k := 0, g.r.Intn(4); i < k; i++ {
		switch g.r.Intn(9) {
		case 0:
			sb.WriteString(g.pick(uniBits...))
		case 1:
			sb.WriteString(g.pick(`\n`, `\t`, `\"`, `\\`, `\0`, `\'`, `\r`, `\u{1F600}`, `\u{e9}`))
		case 2:
			sb.WriteString(`\(` + g.expr(1) + `)`)
		default:
			sb.WriteString(g.pick("a", "b c", "1", "-", "//", "/*"))
		}
	}
	sb.WriteByte('"')
	return sb.String()
}

func (g *gen) typ(d int) string {
	if d <= 0 || g.chance(0.4) {
		return g.pick("Int", "String", "T", "R", "UInt8", "AnyStruct", "&Account", "A.B", "{I}")
	}
	switch g.r.Intn(9) {
	case 0:
		return g.typ(d-1) + "?"
	case 1:
		return "[" + g.typ(d-1) + "]"
	case 2:
		return "[" + g.typ(d-1) + "; 3]"
	case 3:
		return "{" + g.typ(d-1) + ": " + g.typ(d-1) + "}"
	case 4:
		return "fun(" + g.typ(d-1) + "): " + g.typ(d-1)
	case 5:
		return "&" + g.typ(d-1)
	case 6:
		return "auth(" + g.pick("E", "E, F", "E | F", "mapping M") + ") &" + g.typ(d-1)
	case 7:
		return "Capability<" + g.typ(d-1) + ">"
	}
	return "@" + g.typ(d-1)
}

func (g *gen) expr(d int) string {
	if d <= 0 || g.chance(0.3) {
		switch g.r.Intn(12) {
		case 0:
			return g.pick("1", "0", "42", "0x1F", "0b101", "0o17", "1_000", "1.5", "0.0", "100000000000000000000")
		case 1:
			return g.str()
		case 2:
			return g.pick("nil", "true", "false")
		case 3:
			return g.pick("/storage/a", "/public/b")
		case 4:
			return g.pick("[]", "{}", "[1, 2]", `{"a": 1}`)
		}
		return g.ident()
	}
	a, b := g.expr(d-1), g.expr(d-1)
	sp := func() string {
		if g.chance(0.15) {
			return g.ws()
		}
		return " "
	}
	switch g.r.Intn(16) {
	case 0, 1, 2:
		return a + sp() + g.pick("+", "-", "*", "/", "%", "&&", "||", "==", "!=", "<", ">", "<=", ">=", "??", "|", "^", "&", "<<", ">>") + sp() + b
	case 3:
		return "(" + a + ")"
	case 4:
		return g.pick("-", "!", "<-", "*", "&") + a
	case 5:
		return a + g.pick(" as ", " as? ", " as! ") + g.typ(1)
	case 6:
		return a + " ? " + b + " : " + g.expr(d-1)
	case 7:
		return a + g.pick(".", "?.") + g.ident()
	case 8:
		return a + "[" + b + "]"
	case 9:
		return g.ident() + "(" + a + ", " + g.ident() + ": " + b + ")"
	case 10:
		return a + "!"
	case 11:
		return "create R(" + a + ")"
	case 12:
		return "fun (" + g.ident() + ": " + g.typ(1) + "): " + g.typ(1) + " { return " + a + " }"
	case 13:
		return "[" + a + ", " + b + "]"
	case 14:
		return g.ident() + "<" + g.typ(1) + ">(" + a + ")"
	}
	return "{" + a + ": " + b + "}"
}

func (g *gen) stmt(d int) string {
	e := func() string { return g.expr(2) }
	if d <= 0 {
		return g.pick("return", "break", "continue", e(), "return "+e())
	}
	blk := func() string { return "{" + g.ws() + g.stmts(d-1) + g.ws() + "}" }
	switch g.r.Intn(16) {
	case 0:
		return "let " + g.ident() + " = " + e()
	case 1:
		return "var " + g.ident() + ": " + g.typ(2) + " = " + e()
	case 2:
		return "let " + g.ident() + " <- " + e()
	case 3:
		return "if " + e() + " " + blk() + g.pick("", " else "+blk(), " else if "+e()+" "+blk())
	case 4:
		return "if let " + g.ident() + " = " + e() + " " + blk()
	case 5:
		return "while " + e() + " " + blk()
	case 6:
		return "for " + g.pick("i", "i, v") + " in " + e() + " " + blk()
	case 7:
		return "switch " + e() + " {" + g.ws() + "case " + e() + ": " + g.stmt(d-1) + "\ndefault: " + g.stmt(d-1) + g.ws() + "}"
	case 8:
		return g.ident() + g.pick(" = ", " <- ", " <-! ", " <-> ") + e()
	case 9:
		return "emit E(" + g.ident() + ": " + e() + ")"
	case 10:
		return "destroy " + e()
	case 11:
		return "return " + e()
	case 12:
		return "guard " + e() + " else " + blk()
	case 13:
		return "remove A from " + e()
	case 14:
		return g.fun(d - 1)
	}
	return e()
}

func (g *gen) stmts(d int) string {
	var parts []string
	for i, k := 0, g.r.Intn(4); i < k; i++ {
		parts = append(parts, g.stmt(d))
	}
	return strings.Join(parts, g.pick("\n", "; ", "\n\n", " ;\n"))
}

func (g *gen) access() string {
	return g.pick("access(all) ", "access(self) ", "access(contract) ", "access(account) ", "access(E) ", "access(E, F) ", "access(mapping M) ", "")
}

func (g *gen) fun(d int) string {
	s := g.access() + g.pick("", "view ") + "fun " + g.ident() + "(" + g.pick("", "a: Int", "_ a: Int, b c: "+g.typ(1)) + ")" + g.pick("", ": "+g.typ(2)) + " {"
	if g.chance(0.3) {
		s += " pre { " + g.expr(1) + g.pick("", ": \"msg\"") + " }"
	}
	if g.chance(0.2) {
		s += " post { " + g.expr(1) + " }"
	}
	return s + g.ws() + g.stmts(d) + g.ws() + "}"
}

func (g *gen) decl(d int) string {
	switch g.r.Intn(12) {
	case 0, 1, 2:
		return g.fun(d)
	case 3:
		kind := g.pick("struct", "resource", "contract", "struct interface", "resource interface", "contract interface")
		var mem []string
		for i, k := 0, g.r.Intn(4); i < k; i++ {
			switch g.r.Intn(4) {
			case 0:
				mem = append(mem, g.access()+g.pick("let ", "var ")+g.ident()+": "+g.typ(2))
			case 1:
				mem = append(mem, "init("+g.pick("", "a: Int")+") {"+g.stmts(1)+"}")
			case 2:
				mem = append(mem, g.fun(1))
			default:
				if d > 0 {
					mem = append(mem, g.decl(d-1))
				}
			}
		}
		return g.access() + kind + " " + g.ident() + g.pick("", ": I", ": I, J") + " {" + g.ws() + strings.Join(mem, "\n") + g.ws() + "}"
	case 4:
		return g.access() + "enum E: UInt8 { " + g.access() + "case a; case b }"
	case 5:
		return g.access() + "event Ev(" + g.pick("", "a: Int", "a: Int, b: String") + ")"
	case 6:
		return g.access() + "attachment A for R" + g.pick("", ": I") + " { " + g.fun(1) + " }"
	case 7:
		return g.access() + "entitlement " + g.ident()
	case 8:
		return g.access() + "entitlement mapping M { " + g.pick("A -> B", "include N\nA -> B\nC -> D", "") + " }"
	case 9:
		return "transaction" + g.pick("", "(a: Int)") + " {" + g.ws() + g.pick("", "let x: Int\n") +
			g.pick("", "prepare(acct: &Account) {"+g.stmts(1)+"}") + g.ws() + g.pick("", "pre { true }\n") +
			g.pick("", "execute {"+g.stmts(1)+"}") + g.pick("", "\npost { true }") + g.ws() + "}"
	case 10:
		return g.pick("import A from 0x1", `import A, B from "x"`, "import A as B from 0x01", "import C", `import "s"`, "#pragma", `#allow("x")`)
	}
	return g.access() + g.pick("let ", "var ") + g.ident() + g.pick("", ": "+g.typ(2)) + g.pick(" = ", " <- ") + g.expr(3)
}

func (g *gen) program() string {
	var parts []string
	for i, k := 0, 1+g.r.Intn(3); i < k; i++ {
		parts = append(parts, g.decl(2))
	}
	return strings.Join(parts, g.pick("\n", "\n\n", "; "))
}

var soup = []string{"access(all)", " fun ", "f", "(", ")", "{", "}", " let ", " var ", "x", " = ", "1", "0x1F", "1.5", "\"a\\(b)c\"", "\"", "\\", "/*", "*/", "//", "\n", "\r\n", "\t", " ", "<-", "<-!", "<->", "??", "?.", "!", "&", "auth(E)", "@", "[", "]", ":", ",", ";", "?", "as?", "as!", " if ", " else ", " while ", " return ", "é", "ñ", "​", "🇺🇸", "\x00", "\xff", "\xc3", "\xe2\x82", "1_000", "0b", "0o8", "1e5", "..", "...", "#", "$", "`", "'a'", "/storage/a", "/", "<", ">", ">>", "<<", "%", "^", "|", "||", "&&", "==", "!=", "<=", ">=", "+", "-", "*", " resource ", " struct ", " contract ", " interface ", " event ", " emit ", " create ", " destroy ", " import ", " from ", " transaction ", " prepare ", " execute ", " pre ", " post ", " init", " self", " nil", " true", " enum ", " case ", " attachment ", " attach ", " to ", " remove ", " entitlement ", " mapping ", "->", " view ", " switch ", " default", " for ", " in ", " break", " continue", " guard ", "\\(", "\"\\(a)\\(b)\"", "\"\\(\"", "0.", "1.", "0x", "_", "\u2028"}

func (g *gen) soup() string {
	var sb strings.Builder
	for i, k := 0, g.r.Intn(25); i < k; i++ {
		sb.WriteString(soup[g.r.Intn(len(soup))])
	}
	return sb.String()
}

func (g *gen) mutate(src string) string {
	b := []byte(src)
	for i, k := 0, 1+g.r.Intn(3); i < k && len(b) > 0; i++ {
		p := g.r.Intn(len(b))
		switch g.r.Intn(8) {
		case 0: // delete a byte run
			q := p + 1 + g.r.Intn(4)
			if q > len(b) {
				q = len(b)
			}
			b = append(b[:p:p], b[q:]...)
		case 1: // insert a fragment
			f := soup[g.r.Intn(len(soup))]
			b = append(b[:p:p], append([]byte(f), b[p:]...)...)
		case 2: // flip a byte
			b[p] ^= byte(1 << uint(g.r.Intn(8)))
		case 3: // truncate
			b = b[:p]
		case 4: // duplicate a slice
			q := p + g.r.Intn(12)
			if q > len(b) {
				q = len(b)
			}
			b = append(b[:q:q], append(append([]byte{}, b[p:q]...), b[q:]...)...)
		case 5: // random byte
			b[p] = byte(g.r.Intn(256))
		case 6: // insert multi-byte character
			f := uniBits[g.r.Intn(len(uniBits))]
			b = append(b[:p:p], append([]byte(f), b[p:]...)...)
		case 7: // swap two bytes
			q := g.r.Intn(len(b))
			b[p], b[q] = b[q], b[p]
		}
	}
	return string(b)
}

var targeted = []string{
	"a\u200bb", "//é\nx", "// é", "\"é\" x", "/* é */ x", "/*é*/x", "let x = \"abc", "a /* b", "fun f( {", "let x = ", "",
	"a\xc3b", "\"a\xffb\" c", "// \xff\nz", "x\r\ny", "let x = \"\\(a)\\(b)\"", "let x = \"a\\(\"b\")c\"", "let x = \"a\\(\"a\\(x2)b\")b\"",
	"let x = \"\\(f(\"\\(y)\"))\"", "a $ b c", "1 + `x` + 2", "é", "aé b", "\"é\" é", "/* /* */", "/* a */ */", "\"\\(", "\"\\(a", "\"\\(a)",
	"let s = \"😀\" let t = 1", "let s = \"x\" // 日本\nlet t = 2", "/*😀*/ /*é*/ x", "\n\n\né", "x // é\r\ny", "\"\\u{110000}\"", "\"\\q\"", "0x", "0b2", "1.", "1__0", "09",
	"#!shebang\nfun f() {}",
	"/*\n*/\nx y\nz", "/* a\n*/\nx y\nz", "/*\n\n*/\nx y\nz", "/* /*\n*/ \n*/\nx y\nz", "/* c\n", "/* c", "/*\n", "/* a\n*/x y\nz w",
	"/**\n*/\nfun f() {}\nlet x = 1", "/** d\n*/ fun f() {}\nlet y = 2", "// l\n/* b\n*/\nx\ny", "x /*\n*/ y /*\n/*\n*/\n*/ z\nw",
	"/*\r\n*/\nx\ny", "/*é\n*/\nx\ny", "let a = 1 /*\n*/ let b = 2\nlet c = 3", "\ufeffaccess(all) fun f() {}", "let x = \"\\(a \\x b)\"",
}

func (g *gen) big() genInput {
	n := 200 + g.r.Intn(3000)
	rep := func(s string, n int) string { return strings.Repeat(s, n) }
	switch g.r.Intn(16) {
	case 0:
		return genInput{"deep-parens", []byte("let x = " + rep("(", n) + "1" + rep(")", n))}
	case 1:
		return genInput{"deep-array", []byte("let x = " + rep("[", n) + rep("]", n))}
	case 2:
		return genInput{"deep-type", []byte("let x: " + rep("[", n) + "Int" + rep("]", n) + " = 1")}
	case 3:
		return genInput{"deep-unary", []byte("let x = " + rep("-", n) + "1")}
	case 4:
		return genInput{"deep-not", []byte("let x = " + rep("!", n) + "a")}
	case 5:
		return genInput{"deep-comment", []byte(rep("/*", n) + " x " + rep("*/", n-g.r.Intn(3)))}
	case 6:
		return genInput{"huge-int", []byte("let x = " + rep("9", n*10))}
	case 7:
		return genInput{"huge-fix", []byte("let x = 1." + rep("0", n*5) + "1")}
	case 8:
		return genInput{"huge-string", []byte("let x = \"" + rep("é", n*3) + "\"")}
	case 9:
		return genInput{"deep-blocks", []byte("fun f() " + rep("{ if a ", n/2) + "{}" + rep("}", n/2))}
	case 10:
		return genInput{"deep-optional", []byte("let x: Int" + rep("?", n) + " = nil")}
	case 11:
		return genInput{"deep-binary", []byte("let x = 1" + rep(" + 1", n))}
	case 12:
		return genInput{"deep-member", []byte("let x = a" + rep(".b", n))}
	case 13:
		return genInput{"deep-call", []byte("let x = " + rep("f(", n) + rep(")", n))}
	case 14:
		return genInput{"deep-template", []byte("let x = \"" + rep("\\(a)", n) + "\"")}
	}
	var sb strings.Builder
	for sb.Len() < n*4 {
		sb.WriteString(g.program())
		sb.WriteString("\n")
	}
	return genInput{"big-program", []byte(sb.String())}
}

// generate: nSmall inputs of at most maxSmall bytes (judged token by token) and nBig stress inputs.
func generate(seed int64, nSmall, nBig, maxSmall int) []genInput {
	g := &gen{r: rand.New(rand.NewSource(seed*7919 + 17))}
	var out []genInput
	for _, t := range targeted {
		out = append(out, genInput{"targeted", []byte(t)})
	}
	for len(out) < nSmall {
		var in genInput
		switch k := g.r.Intn(10); {
		case k < 3:
			in = genInput{"grammar", []byte(g.program())}
		case k < 6:
			in = genInput{"mutated", []byte(g.mutate(g.program()))}
		case k < 8:
			in = genInput{"soup", []byte(g.soup())}
		case k < 9:
			in = genInput{"mutated-targeted", []byte(g.mutate(targeted[g.r.Intn(len(targeted))] + " " + g.stmt(1)))}
		default:
			in = genInput{"statement", []byte("fun f() { " + g.stmts(2) + " }")}
		}
		if len(in.Data) > maxSmall {
			if in.Kind == "grammar" || in.Kind == "statement" {
				continue
			}
			in.Data = in.Data[:maxSmall]
		}
		out = append(out, in)
	}
	for i := 0; i < nBig; i++ {
		out = append(out, g.big())
	}
	_ = fmt.Sprint
	return out
}
