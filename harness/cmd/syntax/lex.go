package main

import (
	"bufio"
	"encoding/base64"
	"encoding/json"
	"fmt"
	"math/rand"
	"os"
	"os/exec"
	"path/filepath"
	"regexp"
	"strconv"
	"strings"
	"sync"
	"time"

	"github.com/onflow/cadence/ast"
	"github.com/onflow/cadence/common"
	cerrors "github.com/onflow/cadence/errors"
	"github.com/onflow/cadence/parser"
	"github.com/onflow/cadence/parser/lexer"
	"github.com/onflow/cadence/sema"

	"verifharness/util"
)

const maxSmall = 240 // inputs up to this size are judged token by token by TLC

type inputRec struct {
	ID   int    `json:"id"`
	Kind string `json:"kind"`
	Data string `json:"data"` // base64
}

type tokEv struct {
	Ev string `json:"ev"`
	T  string `json:"t"`
	O  int    `json:"o"`
	E  int    `json:"e"`
	L  int    `json:"l"`
	C  int    `json:"c"`
	EL int    `json:"el"`
	EC int    `json:"ec"`
}

type lexEv struct {
	Ev string `json:"ev"`
	ID int    `json:"id"`
	N  int    `json:"n"`
	B  []int  `json:"b"`
}

type diagEv struct {
	Ev       string   `json:"ev"`
	Phase    string   `json:"phase"`
	Res      string   `json:"res"` // program | errors | crash | skipped
	Pos      [][3]int `json:"pos"`
	Internal string   `json:"internal,omitempty"`
	Where    string   `json:"where,omitempty"`
	Msg      string   `json:"msg,omitempty"`
}

type idxRec struct {
	ID     int    `json:"id"`
	Kind   string `json:"kind"`
	Chunk  int    `json:"chunk"`
	First  int    `json:"first"`
	Last   int    `json:"last"`
	Len    int    `json:"len"`
	Tokens int    `json:"tokens"`
	Parse  string `json:"parse"`
	Check  string `json:"check"`
	Errs   int    `json:"errs"`
}

var frameRe = regexp.MustCompile(`github\.com/onflow/cadence/([A-Za-z0-9_/]+)\.([A-Za-z0-9_.()*\[\]]+)\(`)

// whereOf extracts the first cadence frame that is not in package errors from a stack dump.
func whereOf(msg string) string {
	for _, m := range frameRe.FindAllStringSubmatch(msg, -1) {
		if m[1] == "errors" || strings.HasPrefix(m[2], "init") || strings.HasPrefix(m[2], "ParseTokenStream") {
			continue
		}
		return m[1] + "." + strings.TrimSuffix(m[2], "[...]")
	}
	return ""
}

func firstLine(s string) string {
	if i := strings.IndexByte(s, '\n'); i >= 0 {
		s = s[:i]
	}
	if len(s) > 300 {
		s = s[:300]
	}
	return s
}

func diagOf(phase string, errs []error) diagEv {
	d := diagEv{Ev: "Diag", Phase: phase, Res: "errors", Pos: [][3]int{}}
	for _, e := range errs {
		if cerrors.IsInternalError(e) {
			d.Internal = firstLine(e.Error())
			d.Where = whereOf(e.Error())
		}
		if hp, ok := e.(ast.HasPosition); ok && len(d.Pos) < 24 {
			p := hp.StartPosition()
			d.Pos = append(d.Pos, [3]int{p.Offset, p.Line, p.Column})
		}
	}
	return d
}

// runOne lexes, parses and checks one input, appending its events to evs.
func runOne(in []byte, id int, held *[]lexer.TokenStream) (evs []any, rec idxRec) {
	small := len(in) <= maxSmall
	le := lexEv{Ev: "Lex", ID: id, N: len(in), B: []int{}}
	if small {
		for _, c := range in {
			le.B = append(le.B, int(c))
		}
	}
	evs = append(evs, le)
	// --- lexer
	func() {
		defer func() {
			if r := recover(); r != nil {
				evs = append(evs, diagEv{Ev: "Diag", Phase: "lex", Res: "crash", Pos: [][3]int{}, Msg: firstLine(fmt.Sprint(r)), Where: "panic"})
			}
		}()
		ts, err := lexer.Lex(in, nil)
		if err != nil {
			d := diagEv{Ev: "Diag", Phase: "lex", Res: "errors", Pos: [][3]int{}, Msg: firstLine(err.Error())}
			if cerrors.IsInternalError(err) {
				d.Internal, d.Where = firstLine(err.Error()), whereOf(err.Error())
			}
			evs = append(evs, d)
		}
		n := 0
		for {
			tok := ts.Next()
			n++
			if small {
				name := tok.Type.String()
				switch tok.Type {
				case lexer.TokenEOF:
					name = "EOF"
				case lexer.TokenError:
					name = "error"
				case lexer.TokenBlockCommentStart:
					name = "/*"
				case lexer.TokenBlockCommentEnd:
					name = "*/"
				}
				evs = append(evs, tokEv{"Tok", name, tok.StartPos.Offset, tok.EndPos.Offset, tok.StartPos.Line, tok.StartPos.Column,
					tok.EndPos.Line, tok.EndPos.Column})
			}
			if tok.Type == lexer.TokenEOF {
				break
			}
		}
		rec.Tokens = n
		// vary the pool history: sometimes keep the stream and hand it back later
		if id%7 == 3 {
			*held = append(*held, ts)
		} else {
			ts.Reclaim()
			if id%5 == 0 {
				for _, h := range *held {
					h.Reclaim()
				}
				*held = (*held)[:0]
			}
		}
	}()
	// --- parser
	var program *ast.Program
	func() {
		defer func() {
			if r := recover(); r != nil {
				evs = append(evs, diagEv{Ev: "Diag", Phase: "parse", Res: "crash", Pos: [][3]int{}, Msg: firstLine(fmt.Sprint(r)), Where: "panic"})
				rec.Parse = "crash"
			}
		}()
		p, err := parser.ParseProgram(nil, in, parser.Config{})
		if err == nil {
			program = p
			rec.Parse = "program"
			evs = append(evs, diagEv{Ev: "Diag", Phase: "parse", Res: "program", Pos: [][3]int{}})
			return
		}
		rec.Parse = "errors"
		var list []error
		if pe, ok := err.(parser.Error); ok {
			list = pe.Errors
		} else {
			list = []error{err}
		}
		rec.Errs = len(list)
		d := diagOf("parse", list)
		if len(list) == 0 {
			d.Internal, d.Where = "parser returned neither a program nor errors", "parser.ParseProgram"
		}
		evs = append(evs, d)
	}()
	// --- checker
	if program != nil {
		func() {
			defer func() {
				if r := recover(); r != nil {
					msg := fmt.Sprint(r)
					evs = append(evs, diagEv{Ev: "Diag", Phase: "check", Res: "crash", Pos: [][3]int{}, Msg: firstLine(msg), Where: "panic"})
					rec.Check = "crash"
				}
			}()
			checker, err := sema.NewChecker(program, common.StringLocation("input"), nil,
				&sema.Config{AccessCheckMode: sema.AccessCheckModeNotSpecifiedUnrestricted})
			if err != nil {
				evs = append(evs, diagEv{Ev: "Diag", Phase: "check", Res: "errors", Pos: [][3]int{}, Msg: firstLine(err.Error())})
				rec.Check = "errors"
				return
			}
			err = checker.Check()
			if err == nil {
				rec.Check = "program"
				evs = append(evs, diagEv{Ev: "Diag", Phase: "check", Res: "program", Pos: [][3]int{}})
				return
			}
			rec.Check = "errors"
			var list []error
			if ce, ok := err.(*sema.CheckerError); ok {
				list = ce.Errors
			} else if ce, ok := err.(sema.CheckerError); ok {
				list = ce.Errors
			} else {
				list = []error{err}
			}
			rec.Errs += len(list)
			evs = append(evs, diagOf("check", list))
		}()
	}
	return evs, rec
}

// lexWorkerMain: syntax lexworker <inputs> <from> <to> <chunk> <trace> <index> <progress> <timeoutSec>
func lexWorkerMain(args []string) {
	if len(args) != 8 {
		fmt.Fprintln(os.Stderr, "usage: syntax lexworker <inputs> <from> <to> <chunk> <trace> <index> <progress> <timeoutSec>")
		os.Exit(2)
	}
	from, _ := strconv.Atoi(args[1])
	to, _ := strconv.Atoi(args[2])
	chunk, _ := strconv.Atoi(args[3])
	tmo, _ := strconv.Atoi(args[7])
	var inputs []inputRec
	err := util.ReadLines(args[0], func(line []byte) error {
		var r inputRec
		if err := json.Unmarshal(line, &r); err != nil {
			return err
		}
		inputs = append(inputs, r)
		return nil
	})
	if err != nil {
		fmt.Fprintln(os.Stderr, err)
		os.Exit(2)
	}
	// count the lines already in the trace (the worker may be a restart after a crash)
	lines := 0
	if fh, err := os.Open(args[4]); err == nil {
		sc := bufio.NewScanner(fh)
		sc.Buffer(make([]byte, 1<<20), 1<<26)
		for sc.Scan() {
			lines++
		}
		fh.Close()
	}
	tf, err := os.OpenFile(args[4], os.O_APPEND|os.O_CREATE|os.O_WRONLY, 0o644)
	if err != nil {
		fmt.Fprintln(os.Stderr, err)
		os.Exit(2)
	}
	xf, err := os.OpenFile(args[5], os.O_APPEND|os.O_CREATE|os.O_WRONLY, 0o644)
	if err != nil {
		fmt.Fprintln(os.Stderr, err)
		os.Exit(2)
	}
	tw, xw := bufio.NewWriter(tf), bufio.NewWriter(xf)
	var held []lexer.TokenStream
	for _, in := range inputs {
		if in.ID < from || in.ID >= to {
			continue
		}
		dec, _ := base64.StdEncoding.DecodeString(in.Data)
		data := make([]byte, len(dec)) // len == cap: a read past the end of the input cannot go unnoticed
		copy(data, dec)
		// progress marker first: if the process dies, the supervisor knows the input
		_ = os.WriteFile(args[6], []byte(strconv.Itoa(in.ID)), 0o644)
		type result struct {
			evs []any
			rec idxRec
		}
		ch := make(chan result, 1)
		go func() {
			evs, rec := runOne(data, in.ID, &held)
			ch <- result{evs, rec}
		}()
		var res result
		select {
		case res = <-ch:
		case <-time.After(time.Duration(tmo) * time.Second):
			tw.Flush()
			xw.Flush()
			os.Exit(3)
		}
		first := lines + 1
		for _, ev := range res.evs {
			b, _ := json.Marshal(ev)
			tw.Write(b)
			tw.WriteByte('\n')
			lines++
		}
		res.rec.ID, res.rec.Kind, res.rec.Chunk, res.rec.First, res.rec.Last, res.rec.Len = in.ID, in.Kind, chunk, first, lines, len(data)
		b, _ := json.Marshal(res.rec)
		xw.Write(b)
		xw.WriteByte('\n')
		tw.Flush()
		xw.Flush()
	}
	tf.Close()
	xf.Close()
}

type incident struct {
	Incident   string `json:"incident"` // crash | timeout
	ID         int    `json:"id"`
	Kind       string `json:"kind"`
	Len        int    `json:"len"`
	Reproduced bool   `json:"reproduced"`
	Stderr     string `json:"stderr"`
	Where      string `json:"where"`
	Data       string `json:"data"`
}

var fatalRe = regexp.MustCompile(`(?m)^(fatal error: [^\n]*|panic: [^\n]*|runtime: [^\n]*)`)

// lexMain: syntax lex <outdir> <nSmall> <nBig> <chunks> <timeoutSec>
// Supervisor: generates the inputs, runs one worker process per chunk (restarting it after the input on
// which it died or hung, after confirming that input alone), writes trace-<k>.ndjson, index-<k>.ndjson,
// incidents.ndjson and summary.json.
func lexMain(args []string) {
	if len(args) < 5 {
		fmt.Fprintln(os.Stderr, "usage: syntax lex <outdir> <nSmall> <nBig> <chunks> <timeoutSec> [tlc.out of LexerInputs ...]")
		os.Exit(2)
	}
	dir := args[0]
	nSmall, _ := strconv.Atoi(args[1])
	nBig, _ := strconv.Atoi(args[2])
	chunks, _ := strconv.Atoi(args[3])
	tmo, _ := strconv.Atoi(args[4])
	_ = os.MkdirAll(dir, 0o755)
	ins := generate(util.Seed(), nSmall, nBig, maxSmall)
	// the model universe of comment / line-break layouts (LexerInputs.tla, enumerated by TLC): every sequence as it is
	// (the input ends there) and followed by tokens on two later lines; mixed into the random inputs (seeded shuffle)
	var model []genInput
	for _, p := range args[5:] {
		err := util.ReadLines(p, func(line []byte) error {
			obj, ok := tlcLine(string(line))
			if !ok {
				return nil
			}
			fr, ok := obj["frags"].([]any)
			if !ok {
				return nil
			}
			var sb strings.Builder
			for _, f := range fr {
				sb.WriteString(f.(string))
			}
			model = append(model, genInput{"model-eof", []byte(sb.String())}, genInput{"model", []byte(sb.String() + "\nx y\nz")})
			return nil
		})
		if err != nil {
			fmt.Fprintln(os.Stderr, "syntax lex:", err)
			os.Exit(2)
		}
	}
	if len(args) > 5 && len(model) == 0 {
		fmt.Fprintln(os.Stderr, "syntax lex: no model inputs in", args[5:])
		os.Exit(2)
	}
	if len(model) > 0 {
		nsm := len(ins) - nBig
		smallsAll := append(model, ins[:nsm]...)
		rng := rand.New(rand.NewSource(util.Seed()*31 + 5))
		rng.Shuffle(len(smallsAll), func(i, j int) { smallsAll[i], smallsAll[j] = smallsAll[j], smallsAll[i] })
		ins = append(smallsAll, ins[nsm:]...)
	}
	// interleave the stress inputs with the small ones so that every chunk (= one process history) has both
	total := len(ins)
	inPath := filepath.Join(dir, "inputs.ndjson")
	out := util.NewOut(inPath)
	kinds := map[string]int{}
	order := make([]genInput, 0, total)
	bigs := ins[total-nBig:]
	smalls := ins[:total-nBig]
	step := 1
	if nBig > 0 {
		step = len(smalls)/nBig + 1
	}
	bi := 0
	for i, s := range smalls {
		order = append(order, s)
		if nBig > 0 && i%step == step-1 && bi < len(bigs) {
			order = append(order, bigs[bi])
			bi++
		}
	}
	for ; bi < len(bigs); bi++ {
		order = append(order, bigs[bi])
	}
	for i, in := range order {
		out.Write(inputRec{ID: i, Kind: in.Kind, Data: base64.StdEncoding.EncodeToString(in.Data)})
		kinds[in.Kind]++
	}
	out.Close()
	self, _ := os.Executable()
	inc := util.NewOut(filepath.Join(dir, "incidents.ndjson"))
	var wg sync.WaitGroup
	per := (total + chunks - 1) / chunks
	runWorker := func(from, to, chunk int, trace, index, progress string, t int) (int, string) {
		cmd := exec.Command(self, "lexworker", inPath, strconv.Itoa(from), strconv.Itoa(to), strconv.Itoa(chunk), trace, index, progress, strconv.Itoa(t))
		var stderr strings.Builder
		cmd.Stderr = &stderr
		cmd.Env = append(os.Environ(), "GOMAXPROCS=2")
		err := cmd.Run()
		if err == nil {
			return 0, ""
		}
		code := -1
		if ee, ok := err.(*exec.ExitError); ok {
			code = ee.ExitCode()
		}
		s := stderr.String()
		if len(s) > 6000 {
			s = s[:6000]
		}
		return code, s
	}
	for k := 0; k < chunks; k++ {
		wg.Add(1)
		go func(k int) {
			defer wg.Done()
			from, to := k*per, (k+1)*per
			if to > total {
				to = total
			}
			trace := filepath.Join(dir, fmt.Sprintf("trace-%d.ndjson", k))
			index := filepath.Join(dir, fmt.Sprintf("index-%d.ndjson", k))
			progress := filepath.Join(dir, fmt.Sprintf("progress-%d", k))
			for from < to {
				code, stderr := runWorker(from, to, k, trace, index, progress, tmo)
				if code == 0 {
					break
				}
				pb, _ := os.ReadFile(progress)
				id, err := strconv.Atoi(strings.TrimSpace(string(pb)))
				if err != nil || id < from {
					inc.Write(map[string]any{"incident": "supervisor", "chunk": k, "code": code, "stderr": stderr})
					break
				}
				kind := "crash"
				if code == 3 {
					kind = "timeout"
				}
				// confirm on its own, in a fresh process, with a longer time limit
				scratch := filepath.Join(dir, fmt.Sprintf("confirm-%d", id))
				code2, stderr2 := runWorker(id, id+1, k, scratch+".trace", scratch+".index", scratch+".progress", tmo*3)
				reproduced := code2 != 0
				if reproduced && stderr2 != "" {
					stderr = stderr2
				}
				where := ""
				if m := fatalRe.FindString(stderr); m != "" {
					where = m
				}
				inc.Write(incident{Incident: kind, ID: id, Kind: order[id].Kind, Len: len(order[id].Data), Reproduced: reproduced,
					Stderr: stderr, Where: where, Data: base64.StdEncoding.EncodeToString(order[id].Data)})
				from = id + 1
			}
		}(k)
	}
	wg.Wait()
	inc.Close()
	sum := map[string]any{"inputs": total, "small": len(smalls), "big": nBig, "chunks": chunks, "kinds": kinds}
	b, _ := json.Marshal(sum)
	_ = os.WriteFile(filepath.Join(dir, "summary.json"), b, 0o644)
}
