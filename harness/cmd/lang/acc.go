package main

func accMain(args []string) { panic("not yet") }
