package main

// C50 — access modifiers and constant fields. Every row of the table printed by spec/lang/Access.tla
// is rendered as contracts deployed to two accounts (+ a script / transaction where the site is one)
// and run through the real runtime: parser, checker with the runtime's import resolution and
// account-access handler, and contract initialisation. Recorded: accepted?, access errors, other errors.

import (
	"encoding/json"
	"fmt"
	"reflect"
	"runtime"
	"sort"
	"strings"

	"github.com/onflow/cadence/common"
	"github.com/onflow/cadence/errors"
	"github.com/onflow/cadence/sema"

	"verifharness/host"
	"verifharness/util"
)

type ACase struct {
	ID     int    `json:"id"`
	Kind   string `json:"kind"` // access | init
	Site   string `json:"site"`
	Cont   string `json:"cont"`  // S | A
	CKind  string `json:"ckind"` // struct | resource | contract
	Mod    string `json:"mod"`
	MKind  string `json:"mkind"` // var | let | fun
	Via    string `json:"via"`
	Op     string `json:"op"`
	FKind  string `json:"fkind"` // init family
	N      int    `json:"n"`
	Where  string `json:"where"` // inherited-member family: same | sameacct | otheracct
	First  string `json:"first"` // initializer-shape family
	Jump   string `json:"jump"`
	Second string `json:"second"`
}

type AResult struct {
	ID     int               `json:"id"`
	Accept bool              `json:"accept"`
	Access []string          `json:"access"`           // access / constant-field errors
	Other  []string          `json:"other"`            // anything else: harness error
	Writes map[string]int    `json:"writes,omitempty"` // initializer shapes: engine -> most writes of the field seen in one construction
	RunErr map[string]string `json:"runerr,omitempty"`
	Src    string            `json:"src,omitempty"`
}

var accMods = []string{"self", "contract", "account", "all", "E", "E,F", "E|F"}
var accPrim = []string{"self", "contract", "account", "all"}

func modName(m string) string {
	switch m {
	case "E,F":
		return "EaF"
	case "E|F":
		return "EoF"
	}
	return m
}

func modDecl(m string) string { return "access(" + m + ")" }

// accessErrors are the checker errors that are verdicts about the property.
var accessErrors = map[string]bool{
	"InvalidAccessError":                   true,
	"InvalidAssignmentAccessError":         true,
	"AssignmentToConstantMemberError":      true,
	"AssignmentToConstantError":            true,
	"FieldReinitializationError":           true,
	"UnauthorizedReferenceAssignmentError": true,
}

// site statement: the access under test
func accStmt(c *ACase, pfx string) string {
	mn := modName(c.Mod)
	if c.Cont == "A" {
		recv := "A"
		if c.Via == "self" {
			recv = "self"
		}
		if c.Via == "cref" {
			recv = "cr"
		}
		switch {
		case c.MKind == "fun":
			return fmt.Sprintf("let x = %s.cf_%s()", recv, mn)
		case c.Op == "read" && c.MKind == "var":
			return fmt.Sprintf("let x = %s.c_%s", recv, mn)
		case c.Op == "read":
			return fmt.Sprintf("let x = %s.k_%s", recv, mn)
		case c.MKind == "var":
			return fmt.Sprintf("%s.c_%s = 5", recv, mn)
		default:
			return fmt.Sprintf("%s.k_%s = 5", recv, mn)
		}
	}
	recv := c.Via + "."
	if c.Via == "oo" || c.Via == "ror" {
		recv = c.Via + "?."
	}
	switch {
	case c.MKind == "fun":
		return fmt.Sprintf("let x = %sm_%s()", recv, mn)
	case c.Op == "read" && c.MKind == "var":
		return fmt.Sprintf("let x = %sf_%s", recv, mn)
	case c.Op == "read":
		return fmt.Sprintf("let x = %sl_%s", recv, mn)
	case c.MKind == "var":
		return fmt.Sprintf("%sf_%s = 5", recv, mn)
	default:
		return fmt.Sprintf("%sl_%s = 5", recv, mn)
	}
}

// body of the site: builds the paths, performs the access, cleans up. pfx is "A." outside contract A.
func accBody(c *ACase, pfx string) string {
	var sb strings.Builder
	res := c.CKind == "resource"
	if c.Cont == "S" {
		S := pfx + "S"
		if res {
			fmt.Fprintf(&sb, "var o <- %smk()\n", "A.")
			fmt.Fprintf(&sb, "var oo: @%s? <- %smk()\n", S, "A.")
		} else {
			fmt.Fprintf(&sb, "var o = A.mk()\n")
			fmt.Fprintf(&sb, "var oo: %s? = A.mk()\n", S)
		}
		fmt.Fprintf(&sb, "let r = &o as &%s\n", S)
		fmt.Fprintf(&sb, "let arE = &o as auth(%sE) &%s\n", pfx, S)
		fmt.Fprintf(&sb, "let arF = &o as auth(%sF) &%s\n", pfx, S)
		fmt.Fprintf(&sb, "let arEF = &o as auth(%sE, %sF) &%s\n", pfx, pfx, S)
		fmt.Fprintf(&sb, "let arEoF = &o as auth(%sE | %sF) &%s\n", pfx, pfx, S)
		fmt.Fprintf(&sb, "let ror: &%s? = &o as &%s\n", S, S)
	}
	if c.Cont == "A" && c.Via == "cref" {
		sb.WriteString("let cr = getAccount(0x1).contracts.borrow<&A>(name: \"A\")!\n")
	}
	sb.WriteString(accStmt(c, pfx))
	sb.WriteString("\n")
	if c.Cont == "S" && res {
		sb.WriteString("destroy o\ndestroy oo\n")
	}
	return sb.String()
}

func contractA(c *ACase, inMethod, inClosure, inSib, inFun string) string {
	var sb strings.Builder
	res := c.CKind == "resource"
	sb.WriteString("access(all) contract A {\n  access(all) entitlement E\n  access(all) entitlement F\n")
	for _, m := range accPrim {
		fmt.Fprintf(&sb, "  %s var c_%s: Int\n  %s let k_%s: Int\n  %s fun cf_%s(): Int { return 1 }\n",
			modDecl(m), m, modDecl(m), m, modDecl(m), m)
	}
	kw := "struct"
	if res {
		kw = "resource"
	}
	fmt.Fprintf(&sb, "  access(all) %s S {\n", kw)
	for _, m := range accMods {
		mn := modName(m)
		fmt.Fprintf(&sb, "    %s var f_%s: Int\n    %s let l_%s: Int\n    %s fun m_%s(): Int { return 1 }\n",
			modDecl(m), mn, modDecl(m), mn, modDecl(m), mn)
	}
	sb.WriteString("    init() {\n")
	for _, m := range accMods {
		fmt.Fprintf(&sb, "      self.f_%s = 0\n      self.l_%s = 0\n", modName(m), modName(m))
	}
	sb.WriteString("    }\n")
	fmt.Fprintf(&sb, "    access(all) fun siteMethod(): Int {\n%s      return 0\n    }\n", indent(inMethod, "      "))
	fmt.Fprintf(&sb, "    access(all) fun siteClosure(): Int {\n      let g = fun (): Int {\n%s        return 0\n      }\n      return g()\n    }\n", indent(inClosure, "        "))
	sb.WriteString("  }\n")
	if res {
		sb.WriteString("  access(all) fun mk(): @S { return <- create S() }\n")
	} else {
		sb.WriteString("  access(all) fun mk(): S { return S() }\n")
	}
	fmt.Fprintf(&sb, "  access(all) struct Sib {\n    access(all) fun site(): Int {\n%s      return 0\n    }\n  }\n", indent(inSib, "      "))
	fmt.Fprintf(&sb, "  access(all) fun site(): Int {\n%s    return 0\n  }\n", indent(inFun, "    "))
	sb.WriteString("  init() {\n")
	for _, m := range accPrim {
		fmt.Fprintf(&sb, "    self.c_%s = 0\n    self.k_%s = 0\n", m, m)
	}
	sb.WriteString("  }\n}\n")
	return sb.String()
}

func indent(s, ind string) string {
	if s == "" {
		return ""
	}
	lines := strings.Split(strings.TrimRight(s, "\n"), "\n")
	for i := range lines {
		lines[i] = ind + lines[i]
	}
	return strings.Join(lines, "\n") + "\n"
}

func initProgram(c *ACase) string {
	var body strings.Builder
	for i := 0; i < c.N && c.N <= 2; i++ {
		fmt.Fprintf(&body, "self.x = %d; ", i)
	}
	decl := fmt.Sprintf("access(all) %s x: Int", c.FKind)
	if c.N == 3 {
		// assignment, conditional return, second assignment
		return fmt.Sprintf("access(all) contract K {\n  access(all) %s Q {\n    %s\n    init(c: Bool) { self.x = 1; if c { return }; self.x = 2 }\n  }\n  init() {}\n}\n", c.CKind, decl)
	}
	switch c.CKind {
	case "contract":
		return fmt.Sprintf("access(all) contract K {\n  %s\n  init() { %s}\n}\n", decl, body.String())
	default:
		return fmt.Sprintf("access(all) contract K {\n  access(all) %s Q {\n    %s\n    init() { %s}\n  }\n  init() {}\n}\n", c.CKind, decl, body.String())
	}
}

// ---- members declared in an interface (default functions, requirements implemented by the conformer)

func inhPrograms(c *ACase) (ib string, o string, oAddr byte, script string) {
	pfx := "IB."
	if c.Where == "same" {
		pfx = ""
	}
	mod := func(p string) string {
		if c.Mod == "E" {
			return "access(" + p + "E)"
		}
		return "access(" + c.Mod + ")"
	}
	var inIface, inT, initT, access string
	switch c.MKind {
	case "default":
		inIface = mod("") + " fun dm(): Int { return 1 }"
		access = "let x = %s.dm()"
	case "implfun":
		inIface = mod("") + " fun rm(): Int"
		inT = mod(pfx) + " fun rm(): Int { return 2 }"
		access = "let x = %s.rm()"
	default:
		inIface = mod("") + " var rf: Int"
		inT = mod(pfx) + " var rf: Int"
		initT = "self.rf = 0"
		access = "let x = %s.rf"
	}
	stmt := func(recv string) string { return fmt.Sprintf(access, recv) }
	none := "let z = 0"
	sDefault, sIB, sT, sSib, sTC := none, none, none, none, none
	switch c.Site {
	case "SI.default":
		sDefault = stmt("self")
	case "IB.fun":
		sIB = stmt("v")
	case "T.self":
		sT = stmt("self")
	case "T.new":
		sT = stmt("T()")
	case "T.ref":
		sT = "let o = T()\nlet r = &o as &T\n" + stmt("r")
	case "T.iface":
		sT = "let v: {" + pfx + "SI} = T()\n" + stmt("v")
	case "T.sibling":
		sSib = stmt("T()")
	case "TC.fun":
		sTC = stmt("T()")
	}
	tBlock := fmt.Sprintf(`  access(all) struct T: %sSI {
    %s
    init() { %s }
    access(all) fun siteT(): Int {
%s      return 0
    }
  }
  access(all) struct Sib {
    access(all) fun site(): Int {
%s      return 0
    }
  }
  access(all) fun site(): Int {
%s    return 0
  }
  access(all) fun mk(): T { return T() }
`, pfx, inT, initT, indent(sT, "      "), indent(sSib, "      "), indent(sTC, "    "))
	ibT := ""
	if c.Where == "same" {
		ibT = tBlock
	}
	ib = fmt.Sprintf(`access(all) contract IB {
  access(all) entitlement E
  access(all) struct interface SI {
    %s
    access(all) fun siteDefault(): Int {
%s      return 0
    }
  }
%s  access(all) fun siteIB(_ v: {SI}): Int {
%s    return 0
  }
}
`, inIface, indent(sDefault, "      "), ibT, indent(sIB, "    "))
	tc := "IB"
	oAddr = 1
	if c.Where != "same" {
		tc = "O"
		if c.Where == "otheracct" {
			oAddr = 2
		}
		o = "import IB from 0x1\naccess(all) contract O {\n" + tBlock + "}\n"
	}
	if c.Site == "script" {
		script = fmt.Sprintf("import %s from 0x%d\naccess(all) fun main(): Int {\n  %s\n  return 0\n}\n", tc, oAddr, stmt(tc+".mk()"))
	}
	return
}

func runInhCase(c *ACase, w *host.World, res *AResult, srcs *[]string) {
	ib, o, oAddr, script := inhPrograms(c)
	inIB := c.Site == "SI.default" || c.Site == "IB.fun" || (c.Where == "same" && c.Site != "script")
	*srcs = append(*srcs, "// deploy IB to 0x1\n"+ib)
	err := w.Deploy(host.Addr(1), "IB", ib)
	if inIB {
		classifyAcc(err, res)
		return
	}
	if err != nil {
		res.Other = append(res.Other, "FIXTURE IB: "+lastLines(err.Error(), 8))
		return
	}
	if o != "" {
		*srcs = append(*srcs, fmt.Sprintf("// deploy O to 0x%d\n%s", oAddr, o))
		err = w.Deploy(host.Addr(oAddr), "O", o)
		if c.Site != "script" {
			classifyAcc(err, res)
			return
		}
		if err != nil {
			res.Other = append(res.Other, "FIXTURE O: "+lastLines(err.Error(), 8))
			return
		}
	}
	*srcs = append(*srcs, "// script\n"+script)
	r := w.Script(script, false)
	classifyAcc(r.Err, res)
}

// ---- initializer shapes: FIRST ; JUMP ; SECOND over a let field; every write logs "w"

func shapeProgram(c *ACase) string {
	res := c.FKind == "letres"
	asg := func(v int) string {
		if res {
			return "self.x <- create R(); log(\"w\")"
		}
		return fmt.Sprintf("self.x = %d; log(\"w\")", v)
	}
	var b strings.Builder
	switch c.First {
	case "uncond":
		b.WriteString("      " + asg(1) + "\n")
	case "ifthen":
		b.WriteString("      if c1 { " + asg(1) + " }\n")
	case "ifboth":
		b.WriteString("      if c1 { " + asg(1) + " } else { " + asg(1) + " }\n")
	case "elseonly":
		b.WriteString("      if c1 { } else { " + asg(1) + " }\n")
	case "while":
		b.WriteString("      var i = 0\n      while i < n { " + asg(1) + "; i = i + 1 }\n")
	case "switch":
		b.WriteString("      switch n {\n        case 2: " + asg(1) + "\n        default: log(\"d\")\n      }\n")
	}
	switch c.Jump {
	case "ifreturn":
		b.WriteString("      if c2 { return }\n")
	case "loopreturn":
		b.WriteString("      while c2 { return }\n")
	}
	switch c.Second {
	case "uncond":
		b.WriteString("      " + asg(2) + "\n")
	case "cond":
		b.WriteString("      if c3 { " + asg(2) + " }\n")
	}
	kw, decl, mk := "struct", "access(all) let x: Int", "access(all) fun mk(c1: Bool, c2: Bool, c3: Bool, n: Int) { let q = Q(c1: c1, c2: c2, c3: c3, n: n) }"
	if res {
		kw, decl = "resource", "access(all) let x: @R"
		mk = "access(all) fun mk(c1: Bool, c2: Bool, c3: Bool, n: Int) { let q <- create Q(c1: c1, c2: c2, c3: c3, n: n); destroy q }"
	}
	return fmt.Sprintf("access(all) contract K {\n  access(all) resource R {}\n  access(all) %s Q {\n    %s\n    init(c1: Bool, c2: Bool, c3: Bool, n: Int) {\n%s    }\n  }\n  %s\n  init() {}\n}\n",
		kw, decl, b.String(), mk)
}

func runShapeCase(c *ACase, w *host.World, res *AResult, srcs *[]string) {
	src := shapeProgram(c)
	*srcs = append(*srcs, "// deploy K to 0x1\n"+src)
	classifyAcc(w.Deploy(host.Addr(1), "K", src), res)
	if !res.Accept {
		return
	}
	res.Writes, res.RunErr = map[string]int{}, map[string]string{}
	for _, vm := range []bool{false, true} {
		eng := map[bool]string{false: "interpreter", true: "vm"}[vm]
		for m := 0; m < 8; m++ {
			script := fmt.Sprintf("import K from 0x1\naccess(all) fun main() { K.mk(c1: %v, c2: %v, c3: %v, n: 2) }", m&1 != 0, m&2 != 0, m&4 != 0)
			r := w.Script(script, vm)
			if r.Err != nil {
				res.RunErr[eng] = r.Class
				continue
			}
			n := 0
			for _, l := range r.Logs {
				if l == "w" {
					n++
				}
			}
			if n > res.Writes[eng] {
				res.Writes[eng] = n
			}
		}
	}
}

// findCheckerError digs the sema.CheckerError out of a runtime error chain.
func findCheckerErrors(err error, out *[]error, depth int) {
	if err == nil || depth > 40 {
		return
	}
	if ce, ok := err.(*sema.CheckerError); ok {
		*out = append(*out, ce.Errors...)
		return
	}
	if p, ok := err.(errors.ParentError); ok {
		for _, c := range p.ChildErrors() {
			findCheckerErrors(c, out, depth+1)
		}
	}
	if u, ok := err.(interface{ Unwrap() error }); ok {
		findCheckerErrors(u.Unwrap(), out, depth+1)
	}
}

func classifyAcc(err error, res *AResult) {
	if err == nil {
		res.Accept = true
		return
	}
	var errs []error
	findCheckerErrors(err, &errs, 0)
	if len(errs) == 0 {
		res.Other = append(res.Other, "NOCHECKERERROR: "+firstLine(err.Error())+" | "+host.Classify(err))
		return
	}
	acc, oth := map[string]bool{}, map[string]bool{}
	for _, e := range errs {
		t := reflect.TypeOf(e)
		for t.Kind() == reflect.Ptr {
			t = t.Elem()
		}
		// errors inside imported programs are wrapped
		if ip, ok := e.(*sema.ImportedProgramError); ok {
			oth["ImportedProgramError:"+firstLine(ip.Err.Error())] = true
			continue
		}
		if accessErrors[t.Name()] {
			acc[t.Name()] = true
		} else {
			oth[t.Name()+": "+firstLine(e.Error())] = true
		}
	}
	res.Access, res.Other = keys(acc), keys(oth)
	sort.Strings(res.Access)
}

func runAccCase(c *ACase, withSrc bool) AResult {
	res := AResult{ID: c.ID}
	w := host.NewWorld()
	a1, a2 := host.Addr(1), host.Addr(2)
	none := ""
	var srcs []string
	deploy := func(addr common.Address, name, code string, must bool) error {
		srcs = append(srcs, fmt.Sprintf("// deploy %s to %s\n%s", name, addr.Hex(), code))
		err := w.Deploy(addr, name, code)
		if err != nil && must {
			res.Other = append(res.Other, "FIXTURE: "+firstLine(err.Error())+" :: "+lastLines(err.Error(), 6))
		}
		return err
	}
	defer func() {
		if withSrc {
			res.Src = strings.Join(srcs, "\n")
		}
	}()
	if c.Kind == "init" {
		classifyAcc(deploy(a1, "K", initProgram(c), false), &res)
		return res
	}
	if c.Kind == "inh" {
		runInhCase(c, w, &res, &srcs)
		return res
	}
	if c.Kind == "initshape" {
		runShapeCase(c, w, &res, &srcs)
		return res
	}
	switch c.Site {
	case "S.method":
		classifyAcc(deploy(a1, "A", contractA(c, accBody(c, ""), none, none, none), false), &res)
	case "S.closure":
		classifyAcc(deploy(a1, "A", contractA(c, none, accBody(c, ""), none, none), false), &res)
	case "A.Sib":
		classifyAcc(deploy(a1, "A", contractA(c, none, none, accBody(c, ""), none), false), &res)
	case "A.fun":
		classifyAcc(deploy(a1, "A", contractA(c, none, none, none, accBody(c, "")), false), &res)
	default:
		if deploy(a1, "A", contractA(c, none, none, none, none), true) != nil {
			return res
		}
		body := accBody(c, "A.")
		switch c.Site {
		case "B.fun@1":
			code := fmt.Sprintf("import A from 0x1\naccess(all) contract B {\n  access(all) fun site(): Int {\n%s    return 0\n  }\n}\n", indent(body, "    "))
			classifyAcc(deploy(a1, "B", code, false), &res)
		case "B.T@1":
			code := fmt.Sprintf("import A from 0x1\naccess(all) contract B {\n  access(all) struct T {\n    access(all) fun site(): Int {\n%s      return 0\n    }\n  }\n}\n", indent(body, "      "))
			classifyAcc(deploy(a1, "B", code, false), &res)
		case "C.fun@2":
			code := fmt.Sprintf("import A from 0x1\naccess(all) contract C {\n  access(all) fun site(): Int {\n%s    return 0\n  }\n}\n", indent(body, "    "))
			classifyAcc(deploy(a2, "C", code, false), &res)
		case "script":
			code := fmt.Sprintf("import A from 0x1\naccess(all) fun main(): Int {\n%s  return 0\n}\n", indent(body, "  "))
			srcs = append(srcs, "// script\n"+code)
			r := w.Script(code, false)
			classifyAcc(r.Err, &res)
		case "tx.prepare":
			code := fmt.Sprintf("import A from 0x1\ntransaction {\n  prepare(signer: &Account) {\n%s  }\n}\n", indent(body, "    "))
			srcs = append(srcs, "// transaction signed by 0x1\n"+code)
			r := w.Tx(code, []common.Address{a1}, false)
			classifyAcc(r.Err, &res)
		case "tx.execute":
			code := fmt.Sprintf("import A from 0x1\ntransaction {\n  prepare(signer: &Account) {}\n  execute {\n%s  }\n}\n", indent(body, "    "))
			srcs = append(srcs, "// transaction signed by 0x1\n"+code)
			r := w.Tx(code, []common.Address{a1}, false)
			classifyAcc(r.Err, &res)
		default:
			res.Other = append(res.Other, "RENDER: unknown site "+c.Site)
		}
	}
	return res
}

func lastLines(s string, n int) string {
	ls := strings.Split(strings.TrimSpace(s), "\n")
	if len(ls) > n {
		ls = ls[len(ls)-n:]
	}
	return strings.Join(ls, " / ")
}

func accMain(args []string) {
	if len(args) < 2 {
		util.Die("usage: lang acc <cases.ndjson> <results.ndjson> [src]")
	}
	withSrc := len(args) > 2
	var cases []*ACase
	err := util.ReadLines(args[0], func(line []byte) error {
		c := &ACase{}
		if err := json.Unmarshal(line, c); err != nil {
			return err
		}
		cases = append(cases, c)
		return nil
	})
	if err != nil {
		util.Die("reading cases: %v", err)
	}
	results := make([]AResult, len(cases))
	util.Parallel(len(cases), runtime.NumCPU(), func(i int) {
		results[i] = runAccCase(cases[i], withSrc)
	})
	out := util.NewOut(args[1])
	for i := range results {
		out.Write(&results[i])
	}
	out.Write(map[string]any{"summary": true, "cases": len(cases)})
	out.Close()
}
