package main

func purMain(args []string) { panic("not yet") }
