package main

// C07 — view functions have no observable side effects. Every row of the table printed by
// spec/lang/Purity.tla (operation x root x path x site) is rendered as the body of a view function,
// a view method or a pre-/post-condition inside a contract P. Deploying P runs the real checker:
// rejected -> recorded, nothing to run. Accepted -> a transaction calls P.run(acct) on the interpreter
// and on the VM; P.run snapshots every pre-existing value before and after the view call, the host
// records register writes and events. The driver only records; checks/lang.py judges.

import (
	"encoding/json"
	"fmt"
	"reflect"
	"runtime"
	"strings"

	"github.com/onflow/cadence/common"
	"github.com/onflow/cadence/sema"

	"verifharness/host"
	"verifharness/util"
)

type PCase struct {
	ID     int    `json:"id"`
	Op     string `json:"op"`
	TT     string `json:"tt"`
	Root   string `json:"root"`
	Path   string `json:"path"`
	Site   string `json:"site"`
	Effect string `json:"effect"`
}

type PRun struct {
	Engine string   `json:"engine"`
	Class  string   `json:"class"`
	Before string   `json:"before"`
	After  string   `json:"after"`
	Events []string `json:"events"`
	Writes int      `json:"writes"`
	Err    string   `json:"err,omitempty"`
}

type PResult struct {
	ID       int      `json:"id"`
	Accepted bool     `json:"accepted"`
	Purity   []string `json:"purity"` // purity errors reported by the checker
	Other    []string `json:"other"`  // other checker errors
	Fixture  string   `json:"fixture,omitempty"`
	Runs     []PRun   `json:"runs"`
	Body     string   `json:"body"`
	Src      string   `json:"src,omitempty"`
}

var purTypes = map[string]string{"S": "S", "A": "[Int]", "D": "{String: [Int]}"}

// operation templates: %s is the receiver expression; expr = it is an expression (yields a value)
type opTmpl struct {
	tmpl   string
	expr   bool
	method string // for bound-function paths: method name and argument list
	args   string
}

var opTmpls = map[string]opTmpl{
	"assignOwnField":   {"self.hn = 1", false, "", ""},
	"callImpure":       {"%s.setX(1)", true, "setX", "1"},
	"callEntitled":     {"%s.mset(1)", true, "mset", "1"},
	"callView":         {"%s.getX()", true, "getX", ""},
	"fieldAppend":      {"%s.arr.append(9)", false, "", ""},
	"fieldDictAppend":  {"%s.d[\"a\"]!.append(9)", false, "", ""},
	"indexAssign":      {"%s[0] = 9", false, "", ""},
	"append":           {"%s.append(9)", false, "append", "9"},
	"appendAll":        {"%s.appendAll([9])", false, "appendAll", "[9]"},
	"insert":           {"%s.insert(at: 0, 9)", false, "insert", "at: 0, 9"},
	"remove":           {"%s.remove(at: 0)", true, "remove", "at: 0"},
	"removeFirst":      {"%s.removeFirst()", true, "removeFirst", ""},
	"removeLast":       {"%s.removeLast()", true, "removeLast", ""},
	"swapElem":         {"var t = 9\n%s[0] <-> t", false, "", ""},
	"reverse":          {"%s.reverse()", true, "reverse", ""},
	"concat":           {"%s.concat([1])", true, "concat", "[1]"},
	"slice":            {"%s.slice(from: 0, upTo: 1)", true, "slice", "from: 0, upTo: 1"},
	"contains":         {"%s.contains(1)", true, "contains", "1"},
	"length":           {"%s.length", true, "", ""},
	"filterView":       {"%s.filter(view fun (x: Int): Bool { return true })", true, "", ""},
	"mapImpure":        {"%s.map(fun (x: Int): Int { P.gI = 7; return x })", true, "", ""},
	"dictAssign":       {"%s[\"a\"] = [9]", false, "", ""},
	"dictInsert":       {"%s.insert(key: \"b\", [9])", true, "insert", "key: \"b\", [9]"},
	"dictRemove":       {"%s.remove(key: \"a\")", true, "remove", "key: \"a\""},
	"dictNestedAppend": {"%s[\"a\"]!.append(9)", false, "", ""},
	"dictKeys":         {"%s.keys", true, "", ""},
	"forEachKeyImpure": {"%s.forEachKey(fun (k: String): Bool { P.gI = 9; return true })", false, "", ""},
	"swapOwnField":     {"var t = 9\nself.hn <-> t", false, "", ""},
	"refFieldAssign":   {"%s.x = 1", false, "", ""},
	"refFieldSwap":     {"var t = 9\n%s.x <-> t", false, "", ""},
	"swapGlobal":       {"var t = 9\nP.gI <-> t", false, "", ""},
	"swapLocal":        {"var a1 = 1\nvar t = 9\na1 <-> t", false, "", ""},
	"assignCaptured":   {"var cv = 1\nlet gq = view fun () {\n  cv = 2\n}\ngq()", false, "", ""},
	"swapCaptured":     {"var cv = 1\nlet gq = view fun () {\n  var t = 9\n  cv <-> t\n}\ngq()", false, "", ""},
	"assignGlobal":     {"P.gI = 5", false, "", ""},
	"callImpureFree":   {"P.bump()", true, "", ""},
	"emitStatement":    {"emit Ev()", false, "", ""},
	"log":              {"log(\"x\")", false, "", ""},
	"localMutate":      {"var t = [1]\nt.append(2)", false, "", ""},
	"save":             {"%s.storage.save(5, to: /storage/fresh)", false, "", ""},
	"load":             {"%s.storage.load<Int>(from: /storage/pre)", true, "", ""},
	"copy":             {"%s.storage.copy<Int>(from: /storage/pre)", true, "", ""},
	"borrow":           {"%s.storage.borrow<&Int>(from: /storage/pre)", true, "", ""},
	"check":            {"%s.storage.check<Int>(from: /storage/pre)", true, "", ""},
	"issue":            {"%s.capabilities.storage.issue<&Int>(/storage/pre)", true, "", ""},
	"publish":          {"%s.capabilities.publish(%s.capabilities.storage.issue<&Int>(/storage/pre), at: /public/fresh)", false, "", ""},
	"unpublish":        {"%s.capabilities.unpublish(/public/pre)", true, "", ""},
}

func applyOp(c *PCase, recv string, asExpr bool) (string, bool) {
	t, ok := opTmpls[c.Op]
	if !ok {
		return "", false
	}
	n := strings.Count(t.tmpl, "%s")
	args := make([]any, n)
	for i := range args {
		args[i] = recv
	}
	s := fmt.Sprintf(t.tmpl, args...)
	if asExpr {
		return s, t.expr
	}
	if t.expr {
		return "let v0 = " + s, true
	}
	return s, true
}

// purBody renders the statements of the view context for a case (site body) or the condition
// expression (site pre/post). Returns (setup+statement, condition expression).
func purBody(c *PCase) (body string, cond string, err string) {
	ty := purTypes[c.TT]
	var pre []string
	root := ""
	isRef := false
	switch c.Root {
	case "refparam":
		root = map[string]string{"S": "s", "A": "a", "D": "d", "SS": "other"}[c.TT]
		isRef = true
	case "global":
		root = map[string]string{"S": "P.gS", "A": "P.gA", "D": "P.gD"}[c.TT]
	case "self":
		root = map[string]string{"S": "self.hs", "A": "self.ha", "D": "self.hd", "H": "self"}[c.TT]
	case "refglobal":
		pre = append(pre, fmt.Sprintf("let rg = &%s as auth(Mutate) &%s", map[string]string{"S": "P.gS", "A": "P.gA", "D": "P.gD"}[c.TT], ty))
		root, isRef = "rg", true
	case "valparam":
		root = map[string]string{"S": "sv", "A": "av", "D": "dv"}[c.TT]
	case "refval":
		pre = append(pre, fmt.Sprintf("let rv = &%s as auth(Mutate) &%s", map[string]string{"S": "sv", "A": "av", "D": "dv"}[c.TT], ty))
		root, isRef = "rv", true
	case "local", "reflocal":
		init := map[string]string{"S": "S()", "A": "[1, 2, 3]", "D": "{\"a\": [1]}"}[c.TT]
		pre = append(pre, fmt.Sprintf("var lo: %s = %s", ty, init))
		root = "lo"
		if c.Root == "reflocal" {
			pre = append(pre, fmt.Sprintf("let rl = &lo as auth(Mutate) &%s", ty))
			root, isRef = "rl", true
		}
	case "account":
		root = "acct"
	case "none":
		root = ""
	default:
		return "", "", "unknown root " + c.Root
	}
	ot := ty
	if isRef {
		ot = "auth(Mutate) &" + ty
	}
	if c.Site != "body" {
		e, ok := applyOp(c, root, true)
		if !ok || c.Path != "direct" {
			return "", "", "operation cannot be written as a condition expression"
		}
		return strings.Join(pre, "\n"), e, ""
	}
	stmt := func(recv string) string {
		s, _ := applyOp(c, recv, false)
		return s
	}
	elems := strings.Split(c.Path, "+")
	bad := ""
	// walk applies the path elements left to right: recv is the current receiver expression,
	// ref tells whether it is a reference; closures wrap everything that follows
	var walk func(elems []string, recv string, ref bool, n int) string
	walk = func(elems []string, recv string, ref bool, n int) string {
		if len(elems) == 0 {
			return stmt(recv)
		}
		ot := ty
		if ref {
			ot = "auth(Mutate) &" + ty
		}
		rest := elems[1:]
		switch elems[0] {
		case "direct":
			return walk(rest, recv, ref, n+1)
		case "optchain":
			return fmt.Sprintf("var o%d: %s? = %s\n", n, ot, recv) + walk(rest, fmt.Sprintf("o%d?", n), ref, n+1)
		case "force":
			return fmt.Sprintf("var o%d: %s? = %s\n", n, ot, recv) + walk(rest, fmt.Sprintf("o%d!", n), ref, n+1)
		case "iflet":
			return fmt.Sprintf("var o%d: %s? = %s\nif var u%d = o%d {\n", n, ot, recv, n, n) +
				indent(walk(rest, fmt.Sprintf("u%d", n), ref, n+1), "  ") + "}"
		case "wrapper":
			return fmt.Sprintf("let w%d = W(%s)\n", n, recv) + walk(rest, fmt.Sprintf("w%d.r", n), true, n+1)
		case "arrayof":
			return fmt.Sprintf("var rs%d: [%s] = [%s]\n", n, ot, recv) + walk(rest, fmt.Sprintf("rs%d[0]", n), ref, n+1)
		case "closure":
			return fmt.Sprintf("let g%d = fun () {\n", n) + indent(walk(rest, recv, ref, n+1), "  ") + fmt.Sprintf("}\ng%d()", n)
		case "viewclosure":
			return fmt.Sprintf("let g%d = view fun () {\n", n) + indent(walk(rest, recv, ref, n+1), "  ") + fmt.Sprintf("}\ng%d()", n)
		case "derefcopy":
			return fmt.Sprintf("var cp%d = *%s\n", n, recv) + walk(rest, fmt.Sprintf("cp%d", n), false, n+1)
		case "boundfn":
			t := opTmpls[c.Op]
			if t.method == "" || len(rest) != 0 {
				bad = "operation has no bound-function form"
				return ""
			}
			return fmt.Sprintf("let bf = %s.%s\nbf(%s)", recv, t.method, t.args)
		}
		bad = "unknown path element " + elems[0]
		return ""
	}
	out := walk(elems, root, isRef, 1)
	if bad != "" {
		return "", "", bad
	}
	_ = ot
	pre = append(pre, out)
	return strings.Join(pre, "\n"), "", ""
}

const purParams = "s: auth(Mutate) &S, a: auth(Mutate) &[Int], d: auth(Mutate) &{String: [Int]}, sv: S, av: [Int], dv: {String: [Int]}, acct: auth(Storage, Capabilities) &Account"
const purArgs = "s: &sv0 as auth(Mutate) &S, a: &av0 as auth(Mutate) &[Int], d: &dv0 as auth(Mutate) &{String: [Int]}, sv: sv0, av: av0, dv: dv0, acct: acct"

func purFunction(name string, body, cond, site string, ind string) string {
	var sb strings.Builder
	fmt.Fprintf(&sb, "%saccess(all) view fun %s(%s): Int {\n", ind, name, purParams)
	switch site {
	case "pre":
		fmt.Fprintf(&sb, "%s  pre { P.sink(%s) }\n", ind, cond)
	case "post":
		fmt.Fprintf(&sb, "%s  post { P.sink(%s) }\n", ind, cond)
	}
	sb.WriteString(indent(body, ind+"  "))
	fmt.Fprintf(&sb, "%s  return 0\n%s}\n", ind, ind)
	return sb.String()
}

func purContract(c *PCase) (string, string, string) {
	if c.TT == "RX" {
		return purResContract(c)
	}
	body, cond, err := purBody(c)
	if err != "" {
		return "", "", err
	}
	fBody, fCond, fSite := body, cond, c.Site
	mBody, mCond, mSite := "", "", "body"
	call := "let res = self.f(" + purArgs + ")"
	if c.Root == "self" {
		fBody, fCond, fSite = "", "", "body"
		mBody, mCond, mSite = body, cond, c.Site
		call = "let res = h.vm(" + purArgs + ")"
	}
	sBody := ""
	if c.TT == "SS" { // a view method of S itself: only there a field of S is assignable through a reference
		fBody, fCond, fSite = "", "", "body"
		sBody = body
		call = "let res = sv0.vs(other: &sv0 as auth(Mutate) &S)"
	}
	var sb strings.Builder
	sb.WriteString(`access(all) contract P {
  access(all) event Ev()
  access(all) struct S {
    access(all) var x: Int
    access(all) var arr: [Int]
    access(all) var d: {String: [Int]}
    init() { self.x = 0; self.arr = [1, 2]; self.d = {"a": [1]} }
    access(all) fun setX(_ v: Int): Int { self.x = v; return v }
    access(Mutate) fun mset(_ v: Int): Int { self.x = v; return v }
    access(all) view fun getX(): Int { return self.x }
    access(all) view fun vs(other: auth(Mutate) &S): Int {
`)
	sb.WriteString(indent(sBody, "      "))
	sb.WriteString(`      return 0
    }
  }
  access(all) struct W {
    access(all) let r: auth(Mutate) &S
    init(_ r: auth(Mutate) &S) { self.r = r }
  }
  access(all) var gI: Int
  access(all) var gS: S
  access(all) var gA: [Int]
  access(all) var gD: {String: [Int]}
  access(all) fun bump(): Int { self.gI = self.gI + 1; return self.gI }
  access(all) view fun sink(_ x: AnyStruct?): Bool { return true }
  access(all) struct H {
    access(all) var hs: S
    access(all) var ha: [Int]
    access(all) var hd: {String: [Int]}
    access(all) var hn: Int
    init() { self.hs = S(); self.ha = [1, 2, 3]; self.hd = {"a": [1]}; self.hn = 0 }
`)
	sb.WriteString(purFunction("vm", mBody, mCond, mSite, "    "))
	sb.WriteString("  }\n")
	sb.WriteString(purFunction("f", fBody, fCond, fSite, "  "))
	sb.WriteString(`  access(all) fun ints(_ xs: [Int]): String {
    var out = "["
    for x in xs { out = out.concat(x.toString()).concat(",") }
    return out.concat("]")
  }
  access(all) fun dict(_ d: {String: [Int]}): String {
    var out = "{"
    for k in ["a", "b", "c"] { if let v = d[k] { out = out.concat(k).concat(":").concat(self.ints(v)) } }
    return out.concat("}#").concat(d.length.toString())
  }
  access(all) fun str(_ s: S): String {
    return "S(".concat(s.x.toString()).concat(self.ints(s.arr)).concat(self.dict(s.d)).concat(")")
  }
  access(all) fun snap(_ sv0: S, _ av0: [Int], _ dv0: {String: [Int]}, _ h: H): String {
    return self.str(sv0).concat("|").concat(self.ints(av0)).concat("|").concat(self.dict(dv0))
      .concat("|H:").concat(h.hn.toString()).concat(self.str(h.hs)).concat(self.ints(h.ha)).concat(self.dict(h.hd))
      .concat("|G:").concat(self.gI.toString()).concat(self.str(self.gS)).concat(self.ints(self.gA)).concat(self.dict(self.gD))
  }
  access(all) fun run(acct: auth(Storage, Capabilities) &Account) {
    var sv0 = S()
    var av0 = [1, 2, 3]
    var dv0: {String: [Int]} = {"a": [1]}
    var h = H()
    log(self.snap(sv0, av0, dv0, h))
`)
	sb.WriteString("    " + call + "\n")
	sb.WriteString(`    log(self.snap(sv0, av0, dv0, h))
  }
  init() {
    self.gI = 0
    self.gS = S()
    self.gA = [1, 2, 3]
    self.gD = {"a": [1]}
  }
}
`)
	shown := body
	if cond != "" {
		shown = c.Site + " { P.sink(" + cond + ") }"
		if body != "" {
			shown = body + "\n" + shown
		}
	}
	return sb.String(), shown, ""
}

// ---- resource transfers: second value transfer and swap on resource-typed targets (tt = RX)

func purResContract(c *PCase) (string, string, string) {
	idx := c.Root == "selfIndex" // element type @Coin (not optional): the value comes from parameter w
	target := map[string]string{
		"selfField": "self.coin", "selfIndex": "self.coins[0]", "selfDict": "self.bag[\"a\"]",
		"ownedField": "owned.coin", "localVar": "lc", "contractField": "P.gCoin", "contractHoldField": "P.gHold.coin",
	}[c.Root]
	if target == "" {
		return "", "", "unknown target " + c.Root
	}
	var body string
	initBody := "self.spare <- v\nself.spare2 <- w"
	methodBody := "return <- [<- owned, <- v, <- w]"
	switch {
	case c.Site == "init" && c.Op == "secondTransfer" && idx:
		body = fmt.Sprintf("let old <- %s <- w\nself.spare2 <- old\nself.spare <- v", target)
	case c.Site == "init" && c.Op == "secondTransfer":
		body = fmt.Sprintf("let old <- %s <- v\nself.spare <- old\nself.spare2 <- w", target)
	case c.Site == "init" && c.Op == "swapRes" && idx:
		body = fmt.Sprintf("var t <- w\n%s <-> t\nself.spare2 <- t\nself.spare <- v", target)
	case c.Site == "init" && c.Op == "swapRes":
		body = fmt.Sprintf("var t: @Coin? <- v\n%s <-> t\nself.spare <- t\nself.spare2 <- w", target)
	case c.Op == "secondTransfer" && c.Root == "localVar":
		body = "var lc: @Coin? <- v\nlet old <- lc <- w\nreturn <- [<- old, <- lc, <- owned]"
	case c.Op == "secondTransfer" && idx:
		body = fmt.Sprintf("let old <- %s <- w\nreturn <- [<- old, <- owned, <- v]", target)
	case c.Op == "secondTransfer":
		body = fmt.Sprintf("let old <- %s <- v\nreturn <- [<- old, <- owned, <- w]", target)
	case c.Op == "swapRes" && c.Root == "localVar":
		body = "var lc: @Coin? <- v\nvar t: @Coin? <- w\nlc <-> t\nreturn <- [<- lc, <- t, <- owned]"
	case c.Op == "swapRes" && idx:
		body = fmt.Sprintf("var t <- w\n%s <-> t\nreturn <- [<- t, <- owned, <- v]", target)
	case c.Op == "swapRes":
		body = fmt.Sprintf("var t: @Coin? <- v\n%s <-> t\nreturn <- [<- t, <- owned, <- w]", target)
	default:
		return "", "", "unknown operation " + c.Op
	}
	call := "let out <- hold.vm(owned: <- owned, v: <- create Coin(98), w: <- create Coin(99))\n    destroy out"
	if c.Site == "init" {
		// the transfer only runs for the Hold created between the two snapshots (go: true), not for the fixtures
		initBody = "if go {\n" + indent(body, "  ") + "} else {\n  self.spare <- v\n  self.spare2 <- w\n}"
		call = "destroy owned\n    let h3 <- create Hold(a: <- create Coin(5), b: <- create Coin(6), c: <- create Coin(7), v: <- create Coin(98), w: <- create Coin(99), go: true)\n    destroy h3"
	} else {
		methodBody = body
	}
	src := fmt.Sprintf(`access(all) contract P {
  access(all) resource Coin {
    access(all) let id: Int
    view init(_ id: Int) { self.id = id }
  }
  access(all) resource Hold {
    access(all) var coin: @Coin?
    access(all) var coins: @[Coin]
    access(all) var bag: @{String: Coin}
    access(all) var spare: @Coin?
    access(all) var spare2: @Coin?
    view init(a: @Coin?, b: @Coin, c: @Coin, v: @Coin?, w: @Coin, go: Bool) {
      self.coin <- a
      self.coins <- [<- b]
      self.bag <- {"a": <- c}
%s    }
    access(all) view fun vm(owned: @Hold, v: @Coin?, w: @Coin): @[AnyResource?] {
%s    }
  }
  access(all) var gCoin: @Coin?
  access(all) var gHold: @Hold
  access(all) fun cid(_ c: &Coin?): String { if let r = c { return r.id.toString() }; return "nil" }
  access(all) fun snapHold(_ h: &Hold): String {
    var out = "Hold(".concat(self.cid(h.coin)).concat("|")
    var i = 0
    while i < h.coins.length { out = out.concat(h.coins[i].id.toString()).concat(","); i = i + 1 }
    return out.concat("|").concat(self.cid(h.bag["a"])).concat("#").concat(h.bag.length.toString()).concat(")")
  }
  access(all) fun snap(_ h: &Hold): String {
    return self.snapHold(h).concat("|G:").concat(self.cid(&self.gCoin as &Coin?)).concat(self.snapHold(&self.gHold as &Hold))
  }
  access(all) fun run(acct: auth(Storage, Capabilities) &Account) {
    let hold <- create Hold(a: <- create Coin(1), b: <- create Coin(2), c: <- create Coin(3), v: nil, w: <- create Coin(0), go: false)
    let owned <- create Hold(a: <- create Coin(11), b: <- create Coin(12), c: <- create Coin(13), v: nil, w: <- create Coin(0), go: false)
    log(self.snap(&hold as &Hold))
    %s
    log(self.snap(&hold as &Hold))
    destroy hold
  }
  init() {
    self.gCoin <- create Coin(21)
    self.gHold <- create Hold(a: <- create Coin(22), b: <- create Coin(23), c: <- create Coin(24), v: nil, w: <- create Coin(0), go: false)
  }
}
`, indent(initBody, "      "), indent(methodBody, "      "), call)
	return src, body, ""
}

const purSetupTx = `transaction {
  prepare(acct: auth(Storage, Capabilities) &Account) {
    acct.storage.save(7, to: /storage/pre)
    acct.capabilities.publish(acct.capabilities.storage.issue<&Int>(/storage/pre), at: /public/pre)
  }
}`

const purRunTx = `import P from 0x1
transaction {
  prepare(acct: auth(Storage, Capabilities) &Account) {
    P.run(acct: acct)
  }
}`

func runPurCase(c *PCase, withSrc bool) PResult {
	res := PResult{ID: c.ID}
	src, shown, rerr := purContract(c)
	res.Body = shown
	if rerr != "" {
		res.Fixture = "RENDER: " + rerr
		return res
	}
	if withSrc {
		res.Src = src
	}
	a1 := host.Addr(1)
	for _, vm := range []bool{false, true} {
		w := host.NewWorld()
		err := w.Deploy(a1, "P", src)
		if err != nil {
			var errs []error
			findCheckerErrors(err, &errs, 0)
			if len(errs) == 0 {
				res.Fixture = "DEPLOY: " + lastLines(err.Error(), 8)
				return res
			}
			pur, oth := map[string]bool{}, map[string]bool{}
			for _, e := range errs {
				t := reflect.TypeOf(e)
				for t.Kind() == reflect.Ptr {
					t = t.Elem()
				}
				if _, ok := e.(*sema.PurityError); ok {
					pur[t.Name()] = true
				} else {
					oth[t.Name()+": "+firstLine(e.Error())] = true
				}
			}
			res.Purity, res.Other = keys(pur), keys(oth)
			return res // rejected: the same on both engines (one checker)
		}
		res.Accepted = true
		if r := w.Tx(purSetupTx, []common.Address{a1}, false); r.Err != nil {
			res.Fixture = "SETUP: " + lastLines(r.Err.Error(), 6)
			return res
		}
		r := w.Tx(purRunTx, []common.Address{a1}, vm)
		run := PRun{Engine: map[bool]string{false: "interpreter", true: "vm"}[vm], Class: r.Class, Writes: len(r.Writes)}
		if len(r.Logs) >= 1 {
			run.Before = r.Logs[0]
		}
		if len(r.Logs) >= 2 {
			run.After = r.Logs[len(r.Logs)-1]
		}
		for _, ev := range r.Events {
			run.Events = append(run.Events, ev.Type)
		}
		if r.Err != nil {
			run.Err = lastLines(r.Err.Error(), 8)
		}
		res.Runs = append(res.Runs, run)
	}
	return res
}

func purMain(args []string) {
	if len(args) < 2 {
		util.Die("usage: lang pur <cases.ndjson> <results.ndjson> [src]")
	}
	withSrc := len(args) > 2
	var cases []*PCase
	err := util.ReadLines(args[0], func(line []byte) error {
		c := &PCase{}
		if err := json.Unmarshal(line, c); err != nil {
			return err
		}
		cases = append(cases, c)
		return nil
	})
	if err != nil {
		util.Die("reading cases: %v", err)
	}
	results := make([]PResult, len(cases))
	util.Parallel(len(cases), runtime.NumCPU(), func(i int) {
		results[i] = runPurCase(cases[i], withSrc)
	})
	out := util.NewOut(args[1])
	for i := range results {
		out.Write(&results[i])
	}
	out.Write(map[string]any{"summary": true, "cases": len(cases)})
	out.Close()
}
