// lang: drivers of the language-level checks (family "lang").
//
//	lang lin <progs.ndjson> <results.ndjson>     C03: render programs of the resource fragment, run the real sema.Checker
//	lang acc <cases.ndjson> <results.ndjson>     C50: render access sites, deploy to 2 accounts, record checker verdicts
//	lang pur <cases.ndjson> <results.ndjson>     C07: render view functions / conditions, check, execute on both engines
//	lang raw <file.cdc>                          probe: check one program with the bare checker, print the error types
//
// The drivers only render, execute and record. Every judgement (bad path reachable, Permitted,
// effect class) is made by the TLA+ specifications in spec/lang and compared in checks/lang.py.
package main

import (
	"fmt"
	"os"
)

func main() {
	if len(os.Args) < 2 {
		fmt.Fprintln(os.Stderr, "usage: lang lin|acc|pur|raw ...")
		os.Exit(2)
	}
	switch os.Args[1] {
	case "lin":
		linMain(os.Args[2:])
	case "raw":
		rawMain(os.Args[2:])
	case "acc":
		accMain(os.Args[2:])
	case "pur":
		purMain(os.Args[2:])
	default:
		fmt.Fprintln(os.Stderr, "unknown sub-command", os.Args[1])
		os.Exit(2)
	}
}
