package main

// C03 — resource linearity. Programs of the resource fragment arrive as data (the same NDJSON
// batch that spec/lang/Linearity.tla explores path by path); each is rendered to Cadence and
// handed to the real parser + sema.Checker. Recorded: accepted?, the linearity errors, other errors.

import (
	"encoding/json"
	"fmt"
	"os"
	"runtime"
	"sort"
	"strings"

	"github.com/onflow/cadence/ast"
	"github.com/onflow/cadence/common"
	"github.com/onflow/cadence/parser"
	"github.com/onflow/cadence/sema"
	"github.com/onflow/cadence/stdlib"

	"verifharness/util"
)

type LParam struct {
	X string `json:"x"`
	K string `json:"k"`
}

type LStmt struct {
	T      string   `json:"t"`
	X      string   `json:"x"`
	Y      string   `json:"y"`
	Z      string   `json:"z"`
	K      string   `json:"k"`    // kind of the variable the statement is about: r = @R, o = @R?, a = @[R]
	Form   string   `json:"form"` // rendering variant
	Ys     []string `json:"ys"`
	Then   []LStmt  `json:"then"`
	Else   []LStmt  `json:"else"`
	Body   []LStmt  `json:"body"`
	NoElse bool     `json:"noelse"`
	Name   string   `json:"name"`
	Params []LParam `json:"params"`
	Ret    bool     `json:"ret"`
}

type LProg struct {
	ID   int     `json:"id"`
	Body []LStmt `json:"body"`
}

type LResult struct {
	ID     int      `json:"id"`
	Accept bool     `json:"accept"`
	Res    []string `json:"res"`   // linearity errors (distinct type names)
	Other  []string `json:"other"` // anything else: the program is outside the fragment (generator noise)
	Src    string   `json:"src,omitempty"`
}

const linPrelude = `access(all) resource R { access(all) fun foo() {} }
access(all) fun consumeR(_ r: @R) { destroy r }
access(all) fun consumeO(_ r: @R?) { destroy r }
access(all) fun consumeA(_ r: @[R]) { destroy r }
access(all) fun consumeBR(_ r: @R): Bool { destroy r; return true }
access(all) fun consumeBO(_ r: @R?): Bool { destroy r; return true }
access(all) fun consumeBA(_ r: @[R]): Bool { destroy r; return true }
access(all) fun consumeIR(_ r: @R): Int { destroy r; return 1 }
access(all) fun consumeIO(_ r: @R?): Int { destroy r; return 1 }
access(all) fun consumeIA(_ r: @[R]): Int { destroy r; return 1 }
access(all) fun optInt(): Int? { return nil }
access(all) struct T {
  access(all) fun note(_ n: Int) {}
  access(all) fun notes(_ ns: [Int]) {}
  access(all) fun takeR(_ r: @R) { destroy r }
  access(all) fun takeO(_ r: @R?) { destroy r }
  access(all) fun takeA(_ r: @[R]) { destroy r }
}
access(all) fun optT(): T? { return nil }
access(all) fun refR(_ r: &R) {}
access(all) fun refO(_ r: &R?) {}
access(all) fun refA(_ r: &[R]) {}
access(all) fun noop(_ n: Int) {}
access(all) fun cond(): Bool { return true }
access(all) fun items(): [Int] { return [1, 2] }
`

func kindType(k string) string {
	switch k {
	case "o":
		return "@R?"
	case "a":
		return "@[R]"
	}
	return "@R"
}

func kindSuffix(k string) string {
	switch k {
	case "o":
		return "O"
	case "a":
		return "A"
	}
	return "R"
}

type linRenderer struct {
	sb  strings.Builder
	n   int
	err string
}

func (r *linRenderer) line(ind, format string, a ...any) {
	r.sb.WriteString(ind)
	fmt.Fprintf(&r.sb, format, a...)
	r.sb.WriteByte('\n')
}

func moves(xs []string) string {
	parts := make([]string, len(xs))
	for i, x := range xs {
		parts[i] = "<-" + x
	}
	return strings.Join(parts, ", ")
}

func (r *linRenderer) block(ss []LStmt, ind string) {
	for _, s := range ss {
		switch s.T {
		case "decl":
			switch s.K {
			case "o":
				r.line(ind, "var %s: @R? <- create R()", s.X)
			case "a":
				r.line(ind, "var %s: @[R] <- [<- create R()]", s.X)
			default:
				r.line(ind, "var %s <- create R()", s.X)
			}
		case "move":
			switch s.Form {
			case "opt":
				r.line(ind, "var %s: @R? <- %s", s.X, s.Ys[0])
			case "arr":
				r.line(ind, "var %s: @[R] <- [%s]", s.X, moves(s.Ys))
			case "let":
				r.line(ind, "let %s <- %s", s.X, s.Ys[0])
			default:
				r.line(ind, "var %s <- %s", s.X, s.Ys[0])
			}
		case "take":
			r.line(ind, "var %s <- %s.removeFirst()", s.Z, s.X)
		case "destroy":
			r.line(ind, "destroy %s", s.X)
		case "consume":
			r.line(ind, "consume%s(<-%s)", kindSuffix(s.K), s.X)
		case "cmove":
			// a move inside an operand that is evaluated conditionally
			r.n++
			switch s.Form {
			case "or":
				r.line(ind, "let b%d = cond() || consumeB%s(<-%s)", r.n, kindSuffix(s.K), s.X)
			case "coal":
				r.line(ind, "let n%d = optInt() ?? consumeI%s(<-%s)", r.n, kindSuffix(s.K), s.X)
			case "cond":
				r.line(ind, "let n%d = cond() ? consumeI%s(<-%s) : 0", r.n, kindSuffix(s.K), s.X)
			// optional chaining: when the receiver is nil neither the call nor its arguments are evaluated
			case "optmove":
				r.line(ind, "optT()?.take%s(<-%s)", kindSuffix(s.K), s.X)
			case "optcall":
				r.line(ind, "optT()?.note(consumeI%s(<-%s))", kindSuffix(s.K), s.X)
			case "optarr":
				r.line(ind, "optT()?.notes([consumeI%s(<-%s)])", kindSuffix(s.K), s.X)
			case "optcond":
				r.line(ind, "optT()?.note(cond() ? consumeI%s(<-%s) : 0)", kindSuffix(s.K), s.X)
			default:
				r.line(ind, "let b%d = cond() && consumeB%s(<-%s)", r.n, kindSuffix(s.K), s.X)
			}
		case "use":
			switch {
			case s.Form == "ref":
				r.line(ind, "ref%s(&%s as &%s)", kindSuffix(s.K), s.X, kindType(s.K)[1:])
			case s.K == "o":
				r.line(ind, "%s?.foo()", s.X)
			case s.K == "a":
				r.line(ind, "noop(%s.length)", s.X)
			default:
				r.line(ind, "%s.foo()", s.X)
			}
		case "swap":
			r.line(ind, "%s <-> %s", s.X, s.Y)
		case "append":
			r.line(ind, "%s.append(<-%s)", s.X, s.Y)
		case "fassign":
			r.line(ind, "%s <-! %s", s.X, s.Y)
		case "assign":
			r.line(ind, "%s <- %s", s.X, s.Y)
		case "shift":
			r.line(ind, "var %s <- %s <- %s", s.Z, s.X, s.Y)
		case "if":
			r.line(ind, "if cond() {")
			r.block(s.Then, ind+"  ")
			if len(s.Else) == 0 && s.NoElse {
				r.line(ind, "}")
			} else {
				r.line(ind, "} else {")
				r.block(s.Else, ind+"  ")
				r.line(ind, "}")
			}
		case "iflet":
			r.line(ind, "if let %s <- %s {", s.Y, s.X)
			r.block(s.Then, ind+"  ")
			if len(s.Else) == 0 && s.NoElse {
				r.line(ind, "}")
			} else {
				r.line(ind, "} else {")
				r.block(s.Else, ind+"  ")
				r.line(ind, "}")
			}
		case "while":
			r.line(ind, "while cond() {")
			r.block(s.Body, ind+"  ")
			r.line(ind, "}")
		case "for":
			r.n++
			r.line(ind, "for i%d in items() {", r.n)
			r.block(s.Body, ind+"  ")
			r.line(ind, "}")
		case "break", "continue":
			r.line(ind, "%s", s.T)
		case "return":
			switch {
			case s.X != "":
				r.line(ind, "return <- %s", s.X)
			case s.Ret:
				r.line(ind, "return <- create R()")
			default:
				r.line(ind, "return")
			}
		case "panic":
			r.line(ind, "panic(\"\")")
		case "fun":
			ps := make([]string, len(s.Params))
			for i, p := range s.Params {
				ps[i] = fmt.Sprintf("_ %s: %s", p.X, kindType(p.K))
			}
			rt := ""
			if s.Ret {
				rt = ": @R"
			}
			r.line(ind, "fun %s(%s)%s {", s.Name, strings.Join(ps, ", "), rt)
			r.block(s.Body, ind+"  ")
			r.line(ind, "}")
		case "call":
			if s.Ret {
				r.line(ind, "destroy %s(%s)", s.Name, moves(s.Ys))
			} else {
				r.line(ind, "%s(%s)", s.Name, moves(s.Ys))
			}
		default:
			r.err = "unknown statement kind " + s.T
		}
	}
}

func renderLin(p *LProg) (string, string) {
	r := &linRenderer{}
	r.sb.WriteString(linPrelude)
	r.sb.WriteString("access(all) fun test() {\n")
	r.block(p.Body, "  ")
	r.sb.WriteString("}\n")
	return r.sb.String(), r.err
}

// linearityErrors are the checker errors that are verdicts about the property.
var linearityErrors = map[string]bool{
	"ResourceLossError":                 true,
	"ResourceUseAfterInvalidationError": true,
	"InvalidResourceAssignmentError":    true,
	"ResourceFieldNotInvalidatedError":  true,
	"InvalidNestedResourceMoveError":    true,
	"ResourceCapturingError":            true,
}

var linBaseActivation = func() *sema.VariableActivation {
	a := sema.NewVariableActivation(sema.BaseValueActivation)
	a.DeclareValue(stdlib.InterpreterPanicFunction)
	return a
}()

func checkSource(src string) (accept bool, res, other []string) {
	program, err := parser.ParseProgram(nil, []byte(src), parser.Config{})
	if err != nil {
		return false, nil, []string{"PARSE: " + firstLine(err.Error())}
	}
	checker, err := sema.NewChecker(program, common.StringLocation("t"), nil, &sema.Config{
		AccessCheckMode:            sema.AccessCheckModeStrict,
		BaseValueActivationHandler: func(common.Location) *sema.VariableActivation { return linBaseActivation },
	})
	if err != nil {
		return false, nil, []string{"NEWCHECKER: " + err.Error()}
	}
	err = checker.Check()
	if err == nil {
		return true, nil, nil
	}
	ce, ok := err.(*sema.CheckerError)
	if !ok {
		return false, nil, []string{"ERR: " + firstLine(err.Error())}
	}
	rs, os_ := map[string]bool{}, map[string]bool{}
	for _, e := range ce.Errors {
		name := strings.TrimPrefix(fmt.Sprintf("%T", e), "*sema.")
		if linearityErrors[name] {
			rs[name] = true
		} else {
			os_[name] = true
		}
	}
	return false, keys(rs), keys(os_)
}

func keys(m map[string]bool) []string {
	out := make([]string, 0, len(m))
	for k := range m {
		out = append(out, k)
	}
	sort.Strings(out)
	return out
}

func firstLine(s string) string {
	if i := strings.IndexByte(s, '\n'); i >= 0 {
		return s[:i]
	}
	return s
}

func linMain(args []string) {
	if len(args) < 2 {
		util.Die("usage: lang lin <progs.ndjson> <results.ndjson>")
	}
	withSrc := os.Getenv("LANG_SRC") == "1"
	var progs []*LProg
	err := util.ReadLines(args[0], func(line []byte) error {
		p := &LProg{}
		if err := json.Unmarshal(line, p); err != nil {
			return err
		}
		progs = append(progs, p)
		return nil
	})
	if err != nil {
		util.Die("reading programs: %v", err)
	}
	results := make([]LResult, len(progs))
	util.Parallel(len(progs), runtime.NumCPU(), func(i int) {
		p := progs[i]
		src, rerr := renderLin(p)
		res := LResult{ID: p.ID}
		if rerr != "" {
			res.Other = []string{"RENDER: " + rerr}
		} else {
			res.Accept, res.Res, res.Other = checkSource(src)
		}
		if withSrc {
			res.Src = src
		}
		results[i] = res
	})
	out := util.NewOut(args[1])
	for i := range results {
		out.Write(&results[i])
	}
	out.Write(map[string]any{"summary": true, "programs": len(progs)})
	out.Close()
}

func rawMain(args []string) {
	if len(args) < 1 {
		util.Die("usage: lang raw <file.cdc>")
	}
	b, err := os.ReadFile(args[0])
	if err != nil {
		util.Die("%v", err)
	}
	src := string(b)
	if os.Getenv("LANG_PRELUDE") == "1" {
		src = linPrelude + src
	}
	accept, res, other := checkSource(src)
	fmt.Println("accept:", accept, "linearity:", res, "other:", other)
	if os.Getenv("LANG_VERBOSE") == "1" {
		program, _ := parser.ParseProgram(nil, []byte(src), parser.Config{})
		checker, _ := sema.NewChecker(program, common.StringLocation("t"), nil, &sema.Config{
			AccessCheckMode:            sema.AccessCheckModeStrict,
			BaseValueActivationHandler: func(common.Location) *sema.VariableActivation { return linBaseActivation },
		})
		if err := checker.Check(); err != nil {
			for _, e := range err.(*sema.CheckerError).Errors {
				if pe, ok := e.(interface{ StartPosition() ast.Position }); ok {
					fmt.Printf("  %T at line %d col %d: %s\n", e, pe.StartPosition().Line, pe.StartPosition().Column, e.Error())
				} else {
					fmt.Printf("  %T: %s\n", e, e.Error())
				}
			}
		}
	}
}
