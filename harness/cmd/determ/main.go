// determ: observations for spec/system/Determinism.tla (C33 outputs, C31 metering).
//
//	determ outputs <behaviours.ndjson> <obs.ndjson> <runlabel>
//	    executes every history (Storage behaviours + generated bulk programs) and writes one observation
//	    per executed transaction/script: key = history.tx.engine, digest over result, error, events,
//	    logs and the ordered register writes.
//	determ meter <histories.ndjson> <obs.ndjson> <runlabel>
//	    histories are sequences of corpus program ids; every program runs on a fresh world (same state)
//	    inside this one process; observation key = program.engine, digest over the exact sequence of
//	    (kind, amount) computation and memory meterings.
//	determ corpus-size
package main

import (
	"crypto/sha256"
	"encoding/hex"
	"encoding/json"
	"fmt"
	"os"
	"strings"

	"github.com/onflow/cadence/common"

	"verifharness/host"
	. "verifharness/storagedrv"
	"verifharness/util"
)

type Obs struct {
	K      string `json:"k"`
	D      string `json:"d"`
	Run    string `json:"run"`
	Detail string `json:"detail,omitempty"`
}

func digest(parts ...string) string {
	h := sha256.New()
	for _, p := range parts {
		fmt.Fprintf(h, "%d:", len(p))
		h.Write([]byte(p))
	}
	return hex.EncodeToString(h.Sum(nil))[:24]
}

func resultDigest(r host.Result) (string, string) {
	var sb strings.Builder
	sb.WriteString(r.Class + "\n")
	if r.Err != nil {
		sb.WriteString(r.Err.Error() + "\n")
	}
	if r.Value != nil {
		sb.WriteString("value=" + r.Value.String() + "\n")
	}
	for _, l := range r.Logs {
		sb.WriteString("log=" + l + "\n")
	}
	for _, e := range r.Events {
		sb.WriteString("event=" + e.String() + "\n")
	}
	for _, w := range r.Writes {
		fmt.Fprintf(&sb, "write=%x|%x=%x\n", w.Owner, w.Key, w.Value)
	}
	s := sb.String()
	d := s
	if len(d) > 300 {
		d = d[:300]
	}
	return digest(s), d
}

// bulk programs: many slabs in several accounts (parallel commit), dictionary iteration, sets in type ids
func bulkHistory(n int) []string {
	return []string{
		fmt.Sprintf(`transaction { prepare(A1: auth(Storage) &Account, A2: auth(Storage) &Account) {
  let d: {String: [Int]} = {}
  var i = 0
  while i < %d { d["key".concat(i.toString())] = [i, i * 2, i * 3]; i = i + 1 }
  A1.storage.save(d, to: /storage/big)
  let xs: [String] = []
  i = 0
  while i < %d { xs.append("element number ".concat(i.toString()).concat(" padding padding padding padding")); i = i + 1 }
  A2.storage.save(xs, to: /storage/big)
  A2.storage.save(d, to: /storage/big2)
} }`, 40+n*37, 60+n*53),
		`transaction { prepare(A1: auth(Storage) &Account, A2: auth(Storage) &Account) {
  let d = A1.storage.borrow<auth(Mutate) &{String: [Int]}>(from: /storage/big)!
  var s = 0
  for k in d.keys { log(k); s = s + d[k]![1] }
  d.forEachKey(fun (k: String): Bool { log(k); return true })
  log(s)
  d.remove(key: "key3")
  d["zzz"] = [1]
  let xs = A2.storage.borrow<auth(Mutate) &[String]>(from: /storage/big)!
  xs.remove(at: 5); xs.append("tail")
  for p in A2.storage.storagePaths { log(p) }
} }`,
		`access(all) fun main(): [String] {
  let a = getAuthAccount<auth(Storage) &Account>(0x3)
  let out: [String] = []
  a.storage.forEachStored(fun (path: StoragePath, type: Type): Bool { out.append(path.toString().concat(type.identifier)); return true })
  let d = a.storage.copy<{String: [Int]}>(from: /storage/big2)!
  for k in d.keys { out.append(k) }
  out.append(Type<auth(Mutate, Insert, Remove) &[Int]>().identifier)
  out.append(Type<{String: {Int: Bool}}>().identifier)
  return out }`,
	}
}

func outputs(behFile, obsFile, run string) {
	out := util.NewOut(obsFile)
	defer out.Close()
	signers := []common.Address{Accts["A1"], Accts["A2"]}
	nb := 0
	err := util.ReadLines(behFile, func(line []byte) error {
		var b Beh
		if err := json.Unmarshal(line, &b); err != nil {
			return err
		}
		nb++
		engine := host.Engines[b.ID%len(host.Engines)]
		w := host.NewWorld()
		if err := w.Deploy(host.Addr(1), "T", TypesContract); err != nil {
			util.Die("deploy: %v", err)
		}
		var cur []Step
		txi := 0
		for _, s := range b.Steps {
			if s.Op == "begin" {
				cur = nil
				continue
			}
			res := ResString(s)
			endsTx := s.Op == "commit" || s.Op == "abort" || strings.HasPrefix(res, "err:")
			if s.Op != "commit" {
				cur = append(cur, s)
			}
			if !endsTx {
				continue
			}
			txi++
			r := w.TxE(Render(cur), signers, engine)
			d, det := resultDigest(r)
			out.Write(Obs{K: fmt.Sprintf("h%d.t%d.%s", b.ID, txi, engine), D: d, Run: run, Detail: det})
			pr := w.ScriptE(ProjSrc, engine)
			d, det = resultDigest(pr)
			out.Write(Obs{K: fmt.Sprintf("h%d.p%d.%s", b.ID, txi, engine), D: d, Run: run, Detail: det})
		}
		return nil
	})
	if err != nil {
		util.Die("%v", err)
	}
	// bulk histories
	for n := 0; n < 6; n++ {
		for _, engine := range host.Engines {
			w := host.NewWorld()
			for i, src := range bulkHistory(n) {
				var r host.Result
				if strings.Contains(src, "fun main") {
					r = w.ScriptE(src, engine)
				} else {
					r = w.TxE(src, signers, engine)
				}
				if r.Err != nil {
					util.Die("bulk program %d/%d failed on %s: %v", n, i, engine, r.Err)
				}
				d, det := resultDigest(r)
				out.Write(Obs{K: fmt.Sprintf("bulk%d.t%d.%s", n, i, engine), D: d, Run: run, Detail: det})
			}
		}
	}
	// several fresh accounts touched by one commit (small inlined values: the new accounts' storage
	// maps get equal slab indices), then a second transaction creating more accounts' storage
	for n := 2; n <= 5; n++ {
		for _, engine := range host.Engines {
			w := host.NewWorld()
			var fresh []common.Address
			params, body := "", ""
			for i := 0; i < n; i++ {
				fresh = append(fresh, host.Addr(byte(0x40+i)))
				if i > 0 {
					params += ", "
				}
				params += fmt.Sprintf("s%d: auth(Storage) &Account", i)
				body += fmt.Sprintf("    s%d.storage.save(%d, to: /storage/x)\n", n-1-i, i)
			}
			src := fmt.Sprintf("transaction { prepare(%s) {\n%s  } }", params, body)
			r := w.TxE(src, fresh, engine)
			if r.Err != nil {
				util.Die("fresh-accounts program failed: %v", r.Err)
			}
			d, det := resultDigest(r)
			out.Write(Obs{K: fmt.Sprintf("fresh%d.t0.%s", n, engine), D: d, Run: run, Detail: det})
		}
	}
	out.Write(map[string]any{"summary": true, "histories": nb + 6*len(host.Engines) + 4*len(host.Engines)})
}

// ---------------------------------------------------------------- metering corpus (C31)

type prog struct {
	name   string
	script bool
	src    string
}

func meterCorpus() []prog {
	var ps []prog
	add := func(name, src string) { ps = append(ps, prog{name, strings.Contains(src, "fun main"), src}) }
	for _, n := range []int{3, 17, 100, 255, 256, 1000} {
		add(fmt.Sprintf("ints%d", n), fmt.Sprintf(`access(all) fun main(): Int { var s = 0; var i = 0; while i < %d { s = s + i * 2 - 1; i = i + 1 }; return s }`, n))
	}
	for _, t := range []string{"Int8", "UInt64", "Int128", "UInt256", "Word32", "Fix64", "UFix64", "Fix128", "UFix128"} {
		one, two := "1", "2"
		if strings.Contains(t, "Fix") {
			one, two = "1.0", "2.0"
		}
		add("arith-"+t, fmt.Sprintf(`access(all) fun main(): %[1]s { var s: %[1]s = %[2]s; var i = 0; while i < 6 { s = s + %[2]s; s = s * %[3]s / %[3]s; i = i + 1 }; return s }`, t, one, two))
	}
	add("strings", `access(all) fun main(): String { var s = "a"; var i = 0; while i < 20 { s = s.concat("bc").toLower(); i = i + 1 }; return s.slice(from: 3, upTo: 9) }`)
	add("arrays", `access(all) fun main(): Int { let xs: [Int] = []; var i = 0; while i < 50 { xs.append(i); i = i + 1 }; return xs.reverse().slice(from: 3, upTo: 9).length + xs.filter(view fun (x: Int): Bool { return x % 2 == 0 }).length }`)
	add("dicts", `access(all) fun main(): Int { let d: {String: Int} = {}; var i = 0; while i < 40 { d[i.toString()] = i; i = i + 1 }; var s = 0; for k in d.keys { s = s + d[k]! }; return s }`)
	add("types", `access(all) fun main(): [String] { return [Type<Int>().identifier, Type<{String: [Int?]}>().identifier, Type<auth(Mutate) &[Int]>().identifier, Type<Capability<&Int>>().identifier, Type<&{StructStringer}>().identifier] }`)
	add("casts", `access(all) fun main(): Int { let a: AnyStruct = 5; let b: AnyStruct = "x"; var n = 0; if a as? Int != nil { n = n + 1 }; if b as? Int != nil { n = n + 1 }; if a.isInstance(Type<Int>()) { n = n + 1 }; if [a, b] as? [Int] != nil { n = n + 1 }; return n }`)
	add("structs", `import T from 0x1
access(all) fun main(): Int { let xs = [T.S(id: 1), T.S(id: 2)]; var s = 0; for x in xs { s = s + x.id }; let y: {T.I} = xs[0]; return s }`)
	add("resources", `import T from 0x1
transaction { prepare(a: auth(Storage) &Account) { let r <- T.mkR(id: 7); a.storage.save(<- r, to: /storage/r); let b = a.storage.borrow<&T.R>(from: /storage/r)!; log(b.id); let x <- a.storage.load<@T.R>(from: /storage/r)!; destroy x } }`)
	add("storage", `import T from 0x1
transaction { prepare(a: auth(Storage) &Account) { a.storage.save([1, 2, 3], to: /storage/a); a.storage.save({"k": T.S(id: 3)}, to: /storage/d); log(a.storage.storagePaths.length) } }`)
	add("caps", `import T from 0x1
transaction { prepare(a: auth(Storage, Capabilities) &Account) { a.storage.save(T.S(id: 1), to: /storage/s); let c = a.capabilities.storage.issue<&T.S>(/storage/s); a.capabilities.publish(c, at: /public/s); log(a.capabilities.borrow<&T.S>(/public/s)!.id) } }`)
	add("recursion", `access(all) fun fib(_ n: Int): Int { if n < 2 { return n }; return fib(n - 1) + fib(n - 2) }
access(all) fun main(): Int { return fib(12) }`)
	add("closures", `access(all) fun main(): Int { var c = 0; let inc = fun (): Int { c = c + 1; return c }; inc(); inc(); let fs = [inc, inc]; for f in fs { f() }; return c }`)
	add("optionals", `access(all) fun main(): Int { let xs: [Int?] = [1, nil, 3]; var s = 0; for x in xs { s = s + (x ?? 10) }; let d: {String: Int} = {"a": 1}; return s + (d["b"] ?? 0) + d["a"]! }`)
	add("bigint", `access(all) fun main(): Int { var x: Int = 1; var i = 0; while i < 200 { x = x * 3; i = i + 1 }; return x % 1000003 + (x >> 100) % 7 }`)
	add("fixed", `access(all) fun main(): UFix64 { var x: UFix64 = 1.5; var i = 0; while i < 20 { x = x * 1.01 + 0.25; i = i + 1 }; return x }`)
	add("failing", `access(all) fun main(): Int { let xs: [Int] = [1]; return xs[3] }`)
	add("panic", `access(all) fun main(): Int { panic("no") }`)
	add("typeerror", `access(all) fun main(): Int { return "x" }`)
	// built-in functions and types whose values/functions may be cached per process
	for _, t := range []string{"Int", "UInt8", "Int64", "UInt256", "Word16"} {
		add("range-"+t, fmt.Sprintf(`access(all) fun main(): Int { let r = InclusiveRange<%[1]s>(1, 9, step: 2); var n = 0; for i in r { n = n + 1 }; if r.contains(5) { n = n + 1 }; let r2 = InclusiveRange<%[1]s>(1, 3); return n + (r2.contains(2) ? 1 : 0) }`, t))
	}
	add("typector", `access(all) fun main(): [String] { return [OptionalType(Type<Int>()).identifier, VariableSizedArrayType(Type<String>()).identifier, DictionaryType(key: Type<Int>(), value: Type<String>())!.identifier, ReferenceType(entitlements: [], type: Type<Int>())!.identifier, InclusiveRangeType(Type<Int>())!.identifier] }`)
	add("stringfns", `access(all) fun main(): [String] { let s = "Hello, Wörld"; return [s.toLower(), String.encodeHex(s.utf8), String.fromUTF8(s.utf8)!, String.join(s.split(separator: ", "), separator: "-"), s.replaceAll(of: "l", with: "L"), String.fromCharacters(["a", "b"])] }`)
	add("numfns", `access(all) fun main(): [String] { return [Int.fromString("123")!.toString(), UInt8.fromBigEndianBytes([7])!.toString(), (255 as UInt8).toBigEndianBytes().length.toString(), Fix64.fromString("1.5")!.toString(), Int8.min.toString(), UInt64.max.toString(), (7 as Int8).saturatingAdd(1) == 8 ? "y" : "n"] }`)
	add("address", `access(all) fun main(): [String] { let a: Address = 0x2; return [a.toString(), Address.fromString("0x0000000000000002")!.toString(), Address.fromBytes(a.toBytes()).toString()] }`)
	add("paths", `access(all) fun main(): [String] { return [StoragePath(identifier: "foo")!.toString(), PublicPath(identifier: "bar")!.toString(), /storage/x.toString()] }`)
	add("account", `access(all) fun main(): [String] { let a = getAccount(0x2); return [a.address.toString(), a.contracts.names.length.toString(), a.capabilities.exists(/public/x) ? "y" : "n", a.storage.storagePaths.length.toString()] }`)
	add("authaccount", `import T from 0x1
access(all) fun main(): Int { let a = getAuthAccount<auth(Storage, Capabilities) &Account>(0x2); a.storage.save(T.S(id: 3), to: /storage/s); let c = a.capabilities.storage.issue<&T.S>(/storage/s); var n = 0; a.capabilities.storage.forEachController(forPath: /storage/s, fun (c: &StorageCapabilityController): Bool { n = n + 1; return true }); a.storage.forEachStored(fun (p: StoragePath, t: Type): Bool { n = n + 1; return true }); return n + c.borrow()!.id }`)
	add("rlp", `access(all) fun main(): Int { return RLP.decodeString([0x83, 0x64, 0x6f, 0x67]).length + RLP.decodeList([0xc4, 0x83, 0x64, 0x6f, 0x67]).length }`)
	add("conditions", `access(all) struct interface I { access(all) fun f(_ x: Int): Int { pre { x > 0: "pos" } post { result > x: "grow" } } }
access(all) struct S: I { access(all) fun f(_ x: Int): Int { return x + 1 } }
access(all) fun main(): Int { return S().f(3) }`)
	add("enumswitch", `access(all) enum E: UInt8 { access(all) case a; access(all) case b }
access(all) fun main(): Int { var n = 0; for e in [E.a, E.b, E(rawValue: 1)!] { switch e { case E.a: n = n + 1; default: n = n + 10 } }; return n }`)
	add("attachment", `access(all) struct S { access(all) let id: Int; init() { self.id = 1 } }
access(all) attachment A for S { access(all) fun hello(): Int { return base.id + 1 } }
access(all) fun main(): Int { let s = attach A() to S(); var n = s[A]!.hello(); s.forEachAttachment(fun (a: &AnyStructAttachment) { n = n + 1 }); return n }`)
	add("entitlements", `access(all) entitlement E
access(all) struct S { access(E) fun g(): Int { return 2 } access(all) fun f(): Int { return 1 } }
access(all) fun main(): Int { let s = S(); let r = &s as auth(E) &S; let u = r as &S; return r.g() + u.f() }`)
	add("optchain", `access(all) struct S { access(all) var n: S2?; init() { self.n = S2() } }
access(all) struct S2 { access(all) let v: Int; init() { self.v = 4 } }
access(all) fun main(): Int { let s: S? = S(); let t: S? = nil; return (s?.n?.v ?? 0) + (t?.n?.v ?? 1) }`)
	add("sort-filter-map", `access(all) fun main(): [Int] { let xs = [5, 3, 9, 1]; return xs.map(fun (x: Int): Int { return x * 2 }).filter(view fun (x: Int): Bool { return x > 4 }).concat(xs.slice(from: 1, upTo: 3)).reverse() }`)
	add("block", `access(all) fun main(): UInt64 { let b = getCurrentBlock(); return b.height + getBlock(at: b.height)!.view }`)
	add("tx-multi", `import T from 0x1
transaction { prepare(a: auth(Storage) &Account) { var i = 0; while i < 30 { a.storage.save(T.S(id: i), to: StoragePath(identifier: "p".concat(i.toString()))!); i = i + 1 } } execute { log("done") } post { true: "ok" } }`)
	add("events", `import E from 0x1
transaction { prepare(a: auth(Storage) &Account) { E.ping(1); let r <- E.mk(); destroy r } }`)
	return ps
}

const eventsContract = `
access(all) contract E {
  access(all) event Ping(n: Int)
  access(all) resource R { access(all) event ResourceDestroyed(id: UInt64 = self.uuid) }
  access(all) fun mk(): @R { return <- create R() }
  access(all) fun ping(_ n: Int) { emit Ping(n: n) }
}`

func meterOne(p prog, engine string) (string, string) {
	w := host.NewWorld()
	if err := w.Deploy(host.Addr(1), "T", TypesContract); err != nil {
		util.Die("deploy: %v", err)
	}
	if err := w.Deploy(host.Addr(1), "E", eventsContract); err != nil {
		util.Die("deploy: %v", err)
	}
	var sb strings.Builder
	n := 0
	w.ComputationGauge = common.FunctionComputationGauge(func(u common.ComputationUsage) error {
		fmt.Fprintf(&sb, "c%d:%d,", u.Kind, u.Intensity)
		n++
		return nil
	})
	w.MemoryGauge = common.FunctionMemoryGauge(func(u common.MemoryUsage) error {
		fmt.Fprintf(&sb, "m%d:%d,", u.Kind, u.Amount)
		n++
		return nil
	})
	var r host.Result
	if p.script {
		r = w.ScriptE(p.src, engine)
	} else {
		r = w.TxE(p.src, []common.Address{host.Addr(2)}, engine)
	}
	if host.IsInternal(r.Class) {
		util.Die("meter corpus program %s: %s %v", p.name, r.Class, r.Err)
	}
	s := sb.String()
	return digest(s, r.Class), fmt.Sprintf("%d meter calls, outcome %s", n, r.Class)
}

func meter(histFile, obsFile, run string) {
	out := util.NewOut(obsFile)
	defer out.Close()
	corpus := meterCorpus()
	nruns := 0
	err := util.ReadLines(histFile, func(line []byte) error {
		var h []int
		if err := json.Unmarshal(line, &h); err != nil {
			return err
		}
		for _, id := range h {
			p := corpus[(id-1)%len(corpus)]
			for _, engine := range []string{"interp", "vm"} {
				d, det := meterOne(p, engine)
				out.Write(Obs{K: p.name + "." + engine, D: d, Run: run, Detail: det})
				nruns++
			}
		}
		return nil
	})
	if err != nil {
		util.Die("%v", err)
	}
	out.Write(map[string]any{"summary": true, "runs": nruns})
}

func main() {
	if len(os.Args) >= 2 && os.Args[1] == "corpus-size" {
		fmt.Println(len(meterCorpus()))
		return
	}
	if len(os.Args) < 5 {
		util.Die("usage: determ outputs|meter in out runlabel")
	}
	switch os.Args[1] {
	case "outputs":
		outputs(os.Args[2], os.Args[3], os.Args[4])
	case "meter":
		meter(os.Args[2], os.Args[3], os.Args[4])
	default:
		util.Die("unknown mode")
	}
}
