// Package storagedrv renders and replays behaviours of spec/system/Storage.tla into the real runtime (C22).
//
//	storage <behaviours.ndjson> <results.ndjson> [engines=interp,vm]
//
// Each behaviour is {"id":n,"steps":[label...]} where a label is the `last` record of the
// specification and, for steps that end a transaction, carries "com": the committed
// abstract storage the specification predicts. Every call's observable result is logged by
// the rendered transaction and compared; after every transaction a projection *script*
// (fresh Storage, so everything is re-read from the ledger) reads type, value identity,
// storagePaths and forEachStored for every account and compares with "com".
package storagedrv

import (
	"encoding/json"
	"fmt"
	"sort"
	"strings"

	"github.com/onflow/cadence"
	"github.com/onflow/cadence/common"

	"verifharness/host"
)

type Val struct {
	Ty string `json:"ty"`
	ID int    `json:"id"`
}
type Step struct {
	Op  string                    `json:"op"`
	A   string                    `json:"a"`
	P   string                    `json:"p"`
	B   string                    `json:"b"`
	Q   string                    `json:"q"`
	T   string                    `json:"t"`
	V   *Val                      `json:"v"`
	Res json.RawMessage           `json:"res"`
	Com map[string]map[string]Val `json:"com"`
}
type Beh struct {
	ID    int    `json:"id"`
	Steps []Step `json:"steps"`
}
type Fail struct {
	ID      int    `json:"id"`
	Engine  string `json:"engine"`
	Kind    string `json:"kind"`
	Harness bool   `json:"harness,omitempty"`
	Step    int    `json:"step"`
	Msg     string `json:"msg"`
	Src     string `json:"src,omitempty"`
	Beh     *Beh   `json:"beh,omitempty"`
}

const TypesContract = `
access(all) contract T {
  access(all) struct interface I {}
  access(all) resource interface RI {}
  access(all) struct S: I { access(all) let id: Int; init(id: Int) { self.id = id } }
  access(all) struct S2 { access(all) let id: Int; init(id: Int) { self.id = id } }
  access(all) resource R: RI { access(all) let id: Int; init(id: Int) { self.id = id } }
  access(all) resource R2 { access(all) let id: Int; init(id: Int) { self.id = id } }
  access(all) fun mkR(id: Int): @R { return <- create R(id: id) }
  access(all) fun mkR2(id: Int): @R2 { return <- create R2(id: id) }
  access(all) fun join(_ xs: [String]): String { var s = ""; for x in xs { s = s.concat(x).concat(",") }; return s }
  access(all) fun desc(_ v: AnyStruct): String {
    if v.getType().identifier == "(Int)?" { return "OptInt:".concat(((v as! Int?)!).toString()) }
    if let s = v as? S { return "S:".concat(s.id.toString()) }
    if let s = v as? S2 { return "S2:".concat(s.id.toString()) }
    if let s = v as? Int { return "Int:".concat(s.toString()) }
    return "?"
  }
  access(all) fun descR(_ v: &AnyResource): String {
    if let r = v as? &R { return "R:".concat(r.id.toString()) }
    if let r = v as? &R2 { return "R2:".concat(r.id.toString()) }
    return "?"
  }
}`

var Accts = map[string]common.Address{"A1": host.Addr(2), "A2": host.Addr(3)}
var acctNames = []string{"A1", "A2"}
var pathNames = []string{"p1", "p2", "p3"}

func isRes(t string) bool {
	switch t {
	case "R", "R2", "RI", "AnyResource":
		return true
	}
	return false
}

func tyExpr(t string) string {
	switch t {
	case "S", "S2", "R", "R2":
		return "T." + t
	case "I", "RI":
		return "{T." + t + "}"
	}
	return t
}

func valExpr(v *Val) string {
	switch v.Ty {
	case "S", "S2":
		return fmt.Sprintf("T.%s(id: %d)", v.Ty, v.ID)
	case "Int":
		return fmt.Sprint(v.ID)
	case "OptInt":
		return fmt.Sprintf("(%d as Int?)", v.ID)
	case "R":
		return fmt.Sprintf("<- T.mkR(id: %d)", v.ID)
	case "R2":
		return fmt.Sprintf("<- T.mkR2(id: %d)", v.ID)
	}
	panic("valExpr " + v.Ty)
}

// descViaBorrow renders an expression that describes the value at (a, path) without relying on
// failable casts of storage references (they do not look at the stored value).
func descViaBorrow(a, path string, v *Val) string {
	switch v.Ty {
	case "S", "S2", "R", "R2":
		return fmt.Sprintf("\"%s:\".concat(%s.storage.borrow<&T.%s>(from: %s)!.id.toString())", v.Ty, a, v.Ty, path)
	case "Int":
		return fmt.Sprintf("\"Int:\".concat((*%s.storage.borrow<&Int>(from: %s)!).toString())", a, path)
	case "OptInt":
		return fmt.Sprintf("T.desc(%s.storage.copy<AnyStruct>(from: %s)!)", a, path)
	}
	return "\"?\""
}

func Render(steps []Step) string {
	var sb strings.Builder
	sb.WriteString("import T from 0x1\ntransaction {\n  prepare(A1: auth(Storage) &Account, A2: auth(Storage) &Account) {\n")
	for i, s := range steps {
		path := "/storage/" + s.P
		switch s.Op {
		case "save":
			fmt.Fprintf(&sb, "    %s.storage.save(%s, to: %s); log(\"ok\")\n", s.A, valExpr(s.V), path)
		case "load":
			te := tyExpr(s.T)
			if isRes(s.T) {
				fmt.Fprintf(&sb, "    if let v%d <- %s.storage.load<@%s>(from: %s) { log(\"some:\".concat(T.descR(&v%d as &AnyResource))); destroy v%d } else { log(\"nil\") }\n", i, s.A, te, path, i, i)
			} else {
				fmt.Fprintf(&sb, "    if let v%d = %s.storage.load<%s>(from: %s) { log(\"some:\".concat(T.desc(v%d))) } else { log(\"nil\") }\n", i, s.A, te, path, i)
			}
		case "move":
			te := tyExpr(s.T)
			dst := "/storage/" + s.Q
			if isRes(s.T) {
				fmt.Fprintf(&sb, "    if let v%d <- %s.storage.load<@%s>(from: %s) { let d%d = T.descR(&v%d as &AnyResource); %s.storage.save(<-v%d, to: %s); log(\"some:\".concat(d%d)) } else { log(\"nil\") }\n", i, s.A, te, path, i, i, s.B, i, dst, i)
			} else {
				fmt.Fprintf(&sb, "    if let v%d = %s.storage.load<%s>(from: %s) { %s.storage.save(v%d, to: %s); log(\"some:\".concat(T.desc(v%d))) } else { log(\"nil\") }\n", i, s.A, te, path, s.B, i, dst, i)
			}
		case "copy":
			fmt.Fprintf(&sb, "    if let v%d = %s.storage.copy<%s>(from: %s) { log(\"some:\".concat(T.desc(v%d))) } else { log(\"nil\") }\n", i, s.A, tyExpr(s.T), path, i)
		case "borrow":
			id := "\"?\""
			if s.V != nil {
				id = descViaBorrow(s.A, path, s.V)
			}
			fmt.Fprintf(&sb, "    if let v%d = %s.storage.borrow<&%s>(from: %s) { log(\"some:\".concat(%s)) } else { log(\"nil\") }\n", i, s.A, tyExpr(s.T), path, id)
		case "check":
			te := tyExpr(s.T)
			if isRes(s.T) {
				te = "@" + te
			}
			fmt.Fprintf(&sb, "    log(%s.storage.check<%s>(from: %s) ? \"true\" : \"false\")\n", s.A, te, path)
		case "type":
			fmt.Fprintf(&sb, "    if let t%d = %s.storage.type(at: %s) { log(t%d.identifier) } else { log(\"none\") }\n", i, s.A, path, i)
		case "paths":
			fmt.Fprintf(&sb, "    var ps%d: [String] = []; for p in %s.storage.storagePaths { ps%d.append(p.toString()) }; log(T.join(ps%d))\n", i, s.A, i, i)
		case "foreach":
			fmt.Fprintf(&sb, "    var fs%d: [String] = []; %s.storage.forEachStored(fun (path: StoragePath, type: Type): Bool { fs%d.append(path.toString().concat(\"=\").concat(type.identifier)); return true }); log(T.join(fs%d))\n", i, s.A, i, i)
		case "abort":
			sb.WriteString("    panic(\"abort\")\n")
		}
	}
	sb.WriteString("  }\n}\n")
	return sb.String()
}

func tyID(t string) string {
	switch t {
	case "none":
		return "none"
	case "Int":
		return "Int"
	case "OptInt":
		return "(Int)?"
	}
	return "A.0000000000000001.T." + t
}

func sortedJoin(xs []string) string {
	sort.Strings(xs)
	out := ""
	for _, x := range xs {
		out += x + ","
	}
	return out
}

func normalizeSetLog(s string) string {
	if s == "" {
		return ""
	}
	parts := strings.Split(strings.TrimSuffix(s, ","), ",")
	return sortedJoin(parts)
}

// expect returns the log line the specification predicts for a completed step.
func Expect(s Step) (string, bool) {
	var r string
	if json.Unmarshal(s.Res, &r) == nil {
		switch s.Op {
		case "load", "copy", "borrow", "move":
			if r == "some" {
				return fmt.Sprintf("some:%s:%d", s.V.Ty, s.V.ID), false
			}
		case "type":
			return tyID(r), false
		}
		return r, false
	}
	switch s.Op {
	case "paths":
		var set []string
		json.Unmarshal(s.Res, &set)
		for i := range set {
			set[i] = "/storage/" + set[i]
		}
		return sortedJoin(set), true
	case "foreach":
		var set []struct {
			P  string `json:"p"`
			Ty string `json:"ty"`
		}
		json.Unmarshal(s.Res, &set)
		var xs []string
		for _, e := range set {
			xs = append(xs, "/storage/"+e.P+"="+tyID(e.Ty))
		}
		return sortedJoin(xs), true
	}
	return "?", false
}

func ResString(s Step) string {
	var r string
	json.Unmarshal(s.Res, &r)
	return r
}

func projectionScript() string {
	var sb strings.Builder
	sb.WriteString("import T from 0x1\naccess(all) fun main(): [String] { let out: [String] = []\n")
	for _, a := range acctNames {
		fmt.Fprintf(&sb, " let %s = getAuthAccount<auth(Storage) &Account>(%s)\n", a, Accts[a].HexWithPrefix())
		for _, p := range pathNames {
			fmt.Fprintf(&sb, " if let t = %s.storage.type(at: /storage/%s) { out.append(t.identifier) } else { out.append(\"none\") }\n", a, p)
			fmt.Fprintf(&sb, " if %[1]s.storage.check<@T.R>(from: /storage/%[2]s) { out.append(\"R:\".concat(%[1]s.storage.borrow<&T.R>(from: /storage/%[2]s)!.id.toString())) } else { if %[1]s.storage.check<@T.R2>(from: /storage/%[2]s) { out.append(\"R2:\".concat(%[1]s.storage.borrow<&T.R2>(from: /storage/%[2]s)!.id.toString())) } else { if let s = %[1]s.storage.copy<AnyStruct>(from: /storage/%[2]s) { out.append(T.desc(s)) } else { out.append(\"-\") } } }\n", a, p)
		}
		fmt.Fprintf(&sb, " var ps%s = \"\"; for p in %s.storage.storagePaths { ps%s = ps%s.concat(p.toString()).concat(\",\") }; out.append(ps%s)\n", a, a, a, a, a)
		fmt.Fprintf(&sb, " var fs%s: [String] = []; %s.storage.forEachStored(fun (path: StoragePath, type: Type): Bool { fs%s.append(path.toString().concat(\"=\").concat(type.identifier)); return true }); var fj%s = \"\"; for x in fs%s { fj%s = fj%s.concat(x).concat(\",\") }; out.append(fj%s)\n", a, a, a, a, a, a, a, a)
	}
	sb.WriteString(" return out }\n")
	return sb.String()
}

var ProjSrc = projectionScript()

func errKindOK(want, class string) bool {
	switch want {
	case "err:overwrite":
		return class == "user:OverwriteError"
	case "err:type":
		return class == "user:ForceCastTypeMismatchError" || class == "user:StoredValueTypeMismatchError" ||
			class == "user:TypeMismatchError"
	case "abort":
		return class == "user:PanicError"
	}
	return false
}

func Replay(b *Beh, useVM bool) *Fail {
	eng := "interp"
	if useVM {
		eng = "vm"
	}
	w := host.NewWorld()
	if err := w.Deploy(host.Addr(1), "T", TypesContract); err != nil {
		return &Fail{ID: b.ID, Engine: eng, Kind: "deploy", Harness: true, Msg: err.Error()}
	}
	signers := []common.Address{Accts["A1"], Accts["A2"]}
	var cur []Step
	for si, s := range b.Steps {
		if s.Op == "begin" {
			cur = nil
			continue
		}
		res := ResString(s)
		endsTx := s.Op == "commit" || s.Op == "abort" || strings.HasPrefix(res, "err:")
		if s.Op != "commit" {
			cur = append(cur, s)
		}
		if !endsTx {
			continue
		}
		src := Render(cur)
		r := w.Tx(src, signers, useVM)
		fail := func(kind, msg string) *Fail {
			return &Fail{ID: b.ID, Engine: eng, Kind: kind, Step: si, Msg: msg, Src: src, Beh: b}
		}
		if host.IsInternal(r.Class) {
			return fail("internal", r.Class+": "+r.Err.Error())
		}
		if r.Class == "user:ParsingCheckingError" || r.Class == "user:CheckerError" || strings.Contains(r.Class, "Parsing") {
			f := fail("render", r.Err.Error())
			f.Harness = true
			return f
		}
		wantErr := s.Op != "commit"
		if (r.Err != nil) != wantErr {
			return fail("outcome", fmt.Sprintf("transaction outcome: model predicts failure=%v, runtime returned %v", wantErr, r.Err))
		}
		if wantErr {
			want := res
			if s.Op == "abort" {
				want = "abort"
			}
			if !errKindOK(want, r.Class) {
				return fail("errkind", fmt.Sprintf("model predicts %s, runtime failed with %s: %v", want, r.Class, r.Err))
			}
			if len(r.Writes) != 0 {
				return fail("write-on-failure", fmt.Sprintf("failed transaction wrote %d registers", len(r.Writes)))
			}
		}
		var want []string
		var isSet []bool
		for _, c := range cur {
			cr := ResString(c)
			if c.Op == "abort" || strings.HasPrefix(cr, "err:") {
				break
			}
			e, set := Expect(c)
			want = append(want, e)
			isSet = append(isSet, set)
		}
		got := append([]string(nil), r.Logs...)
		if len(got) == len(want) {
			for i := range got {
				if isSet[i] {
					got[i] = normalizeSetLog(got[i])
				}
			}
		}
		if strings.Join(want, "|") != strings.Join(got, "|") {
			return fail("result", fmt.Sprintf("per-call results: model=%v runtime=%v", want, got))
		}
		// projection in a fresh script
		if s.Com == nil {
			f := fail("nocom", "behaviour step ending a transaction carries no predicted committed state")
			f.Harness = true
			return f
		}
		pr := w.Script(ProjSrc, useVM)
		if pr.Err != nil {
			if host.IsInternal(pr.Class) {
				return fail("internal", "projection: "+pr.Class+": "+pr.Err.Error())
			}
			return fail("projection", "projection script failed: "+pr.Err.Error())
		}
		if len(pr.Writes) != 0 {
			return fail("script-write", fmt.Sprintf("script wrote %d registers", len(pr.Writes)))
		}
		arr := pr.Value.(cadence.Array)
		k := 0
		str := func() string { v := string(arr.Values[k].(cadence.String)); k++; return v }
		for _, a := range acctNames {
			var occ, fe []string
			for _, p := range pathNames {
				gotTy, gotDesc := str(), str()
				mv, ok := s.Com[a][p]
				if !ok {
					mv = Val{Ty: "none"}
				}
				wantTy := tyID(mv.Ty)
				wantDesc := "-"
				if mv.Ty != "none" {
					wantDesc = fmt.Sprintf("%s:%d", mv.Ty, mv.ID)
					occ = append(occ, "/storage/"+p)
					fe = append(fe, "/storage/"+p+"="+wantTy)
				}
				if gotTy != wantTy || gotDesc != wantDesc {
					return fail("state", fmt.Sprintf("committed storage %s/%s: model=(%s,%s) runtime=(%s,%s)", a, p, wantTy, wantDesc, gotTy, gotDesc))
				}
			}
			gp, gf := normalizeSetLog(str()), normalizeSetLog(str())
			if gp != sortedJoin(occ) {
				return fail("state-paths", fmt.Sprintf("storagePaths of %s: model=%s runtime=%s", a, sortedJoin(occ), gp))
			}
			if gf != sortedJoin(fe) {
				return fail("state-foreach", fmt.Sprintf("forEachStored of %s: model=%s runtime=%s", a, sortedJoin(fe), gf))
			}
		}
	}
	return nil
}
