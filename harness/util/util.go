// Package util: NDJSON I/O and small helpers shared by the drivers.
package util

import (
	"bufio"
	"encoding/json"
	"fmt"
	"os"
	"strconv"
	"sync"
)

// ReadLines streams an NDJSON file, calling f with each raw line.
func ReadLines(path string, f func(line []byte) error) error {
	fh, err := os.Open(path)
	if err != nil {
		return err
	}
	defer fh.Close()
	sc := bufio.NewScanner(fh)
	sc.Buffer(make([]byte, 1<<24), 1<<26)
	for sc.Scan() {
		b := sc.Bytes()
		if len(b) == 0 {
			continue
		}
		cp := append([]byte(nil), b...)
		if err := f(cp); err != nil {
			return err
		}
	}
	return sc.Err()
}

// Out is a concurrency-safe NDJSON writer.
type Out struct {
	mu sync.Mutex
	w  *bufio.Writer
	f  *os.File
}

func NewOut(path string) *Out {
	f, err := os.Create(path)
	if err != nil {
		panic(err)
	}
	return &Out{w: bufio.NewWriterSize(f, 1<<20), f: f}
}

func (o *Out) Write(v any) {
	b, err := json.Marshal(v)
	if err != nil {
		panic(err)
	}
	o.mu.Lock()
	o.w.Write(b)
	o.w.WriteByte('\n')
	o.mu.Unlock()
}

func (o *Out) Close() {
	o.mu.Lock()
	o.w.Flush()
	o.f.Close()
	o.mu.Unlock()
}

func Seed() int64 {
	s, err := strconv.ParseInt(os.Getenv("VERIF_SEED"), 10, 64)
	if err != nil {
		return 1
	}
	return s
}

func Tier() string {
	t := os.Getenv("VERIF_TIER")
	if t == "" {
		return "quick"
	}
	return t
}

func Die(format string, a ...any) {
	fmt.Fprintf(os.Stderr, "HARNESS-ERROR: "+format+"\n", a...)
	os.Exit(2)
}

// Parallel runs f(i) for i in [0,n) on `workers` goroutines.
func Parallel(n, workers int, f func(i int)) {
	if workers < 1 {
		workers = 1
	}
	var wg sync.WaitGroup
	ch := make(chan int, 256)
	for w := 0; w < workers; w++ {
		wg.Add(1)
		go func() {
			defer wg.Done()
			for i := range ch {
				f(i)
			}
		}()
	}
	for i := 0; i < n; i++ {
		ch <- i
	}
	close(ch)
	wg.Wait()
}
