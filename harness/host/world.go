// Package host is the shared execution world used by every system-level driver:
// a real cadence runtime built from /repo, an in-memory ledger with a write log,
// a contract-code store with per-transaction rollback (the runtime updates code
// eagerly and relies on the host to discard it when the transaction fails),
// fresh locations and a fresh program cache per execution, and collected
// logs/events. All host callbacks can be made to fail (fault plan).
package host

import (
	"encoding/hex"
	"encoding/json"
	"fmt"
	"reflect"
	"sort"
	"strings"
	"sync/atomic"

	"github.com/onflow/cadence"
	"github.com/onflow/cadence/common"
	cdcjson "github.com/onflow/cadence/encoding/json"
	"github.com/onflow/cadence/errors"
	"github.com/onflow/cadence/runtime"
	ru "github.com/onflow/cadence/test_utils/runtime_utils"
)

type Write struct {
	Owner, Key string
	Value      []byte
}

type Event struct {
	Type   string
	Fields []string // field names in payload order
	Values []string // cadence value strings in payload order
	Raw    cadence.Event
}

type Result struct {
	Trace  []TraceEvent
	Value  cadence.Value
	Err    error
	Class  string // ok | user:<type> | internal:<type> | external
	Logs   []string
	Events []Event
	Writes []Write
	UUIDs  []uint64 // uuids generated during the execution
}

type World struct {
	RT     runtime.Runtime
	RI     *ru.TestRuntimeInterface
	Ledger ru.TestLedger
	Codes  map[common.AddressLocation][]byte

	logs   []string
	events []Event
	writes []Write
	uuids  []uint64
	next   uint64
	uuid   uint64
	acctID map[common.Address]uint64

	Signers []common.Address

	// trace of host callbacks + runtime hook events of the current execution
	id          uint64
	cfg         runtime.Config
	iface       *Traced
	trace       []TraceEvent
	callCount   map[string]int
	nrec        int
	full        bool
	RecordTrace bool     // record every callback (not only faults and hook events)
	Faults      []*Fault // fault plan for the next execution(s)
	// Random supplies bytes for ReadRandom; nil = zeros.
	Random func([]byte)

	MemoryGauge      common.MemoryGauge
	ComputationGauge common.ComputationGauge
}

func Addr(b byte) common.Address { return common.MustBytesToAddress([]byte{b}) }

func NewWorld() *World {
	return NewWorldWithConfig(runtime.Config{AtreeValidationEnabled: true})
}

func NewWorldWithConfig(cfg runtime.Config) *World {
	w := &World{
		Codes:  map[common.AddressLocation][]byte{},
		acctID: map[common.Address]uint64{},
	}
	w.RT = runtime.NewRuntime(cfg)
	w.cfg = cfg
	w.id = atomic.AddUint64(&worldCounter, 1)
	w.callCount = map[string]int{}
	w.Ledger = ru.NewTestLedger(nil, func(owner, key, value []byte) {
		w.writes = append(w.writes, Write{Owner: string(owner), Key: string(key), Value: append([]byte(nil), value...)})
	})
	w.RI = &ru.TestRuntimeInterface{
		Storage:           w.Ledger,
		OnResolveLocation: ru.NewSingleIdentifierLocationResolver(nil),
		OnGetAccountContractCode: func(l common.AddressLocation) ([]byte, error) {
			return w.Codes[l], nil
		},
		OnUpdateAccountContractCode: func(l common.AddressLocation, c []byte) error {
			w.Codes[l] = append([]byte(nil), c...)
			return nil
		},
		OnRemoveAccountContractCode: func(l common.AddressLocation) error {
			delete(w.Codes, l)
			return nil
		},
		OnGetAccountContractNames: func(a runtime.Address) ([]string, error) {
			var names []string
			for l := range w.Codes {
				if l.Address == a {
					names = append(names, l.Name)
				}
			}
			sort.Strings(names)
			return names, nil
		},
		OnGetSigningAccounts: func() ([]runtime.Address, error) { return w.Signers, nil },
		OnProgramLog: func(s string) {
			w.logs = append(w.logs, Unquote(s))
		},
		OnEmitEvent: func(e cadence.Event) error {
			w.events = append(w.events, MakeEvent(e))
			return nil
		},
		OnGenerateUUID: func() (uint64, error) {
			w.uuid++
			w.uuids = append(w.uuids, w.uuid)
			return w.uuid, nil
		},
		OnGenerateAccountID: func(a common.Address) (uint64, error) {
			w.acctID[a]++
			return w.acctID[a], nil
		},
		OnDecodeArgument: func(b []byte, t cadence.Type) (cadence.Value, error) {
			return cdcjson.Decode(nil, b)
		},
		OnReadRandom: func(b []byte) error {
			if w.Random != nil {
				w.Random(b)
			} else {
				for i := range b {
					b[i] = 0
				}
			}
			return nil
		},
	}
	w.iface = &Traced{Interface: w.RI, w: w}
	return w
}

var worldCounter uint64

// Close is kept for symmetry; worlds are only registered for hook routing while executing.
func (w *World) Close() {}

// Snapshot captures ledger registers, slab indices, contract code and counters.
type Snapshot struct {
	values  map[string][]byte
	indices map[string]uint64
	codes   map[common.AddressLocation][]byte
	uuid    uint64
	acctID  map[common.Address]uint64
}

func (w *World) Snapshot() Snapshot {
	sn := Snapshot{values: map[string][]byte{}, indices: map[string]uint64{}, codes: w.snapshotCodes(), uuid: w.uuid,
		acctID: map[common.Address]uint64{}}
	for k, v := range w.Ledger.StoredValues {
		sn.values[k] = v
	}
	for k, v := range w.Ledger.StorageIndices {
		sn.indices[k] = v
	}
	for k, v := range w.acctID {
		sn.acctID[k] = v
	}
	return sn
}

// Restore puts the world back into a snapshotted state (the ledger maps are refilled in place).
func (w *World) Restore(sn Snapshot) {
	for k := range w.Ledger.StoredValues {
		delete(w.Ledger.StoredValues, k)
	}
	for k, v := range sn.values {
		w.Ledger.StoredValues[k] = v
	}
	for k := range w.Ledger.StorageIndices {
		delete(w.Ledger.StorageIndices, k)
	}
	for k, v := range sn.indices {
		w.Ledger.StorageIndices[k] = v
	}
	w.Codes = map[common.AddressLocation][]byte{}
	for k, v := range sn.codes {
		w.Codes[k] = v
	}
	w.uuid = sn.uuid
	w.acctID = map[common.Address]uint64{}
	for k, v := range sn.acctID {
		w.acctID[k] = v
	}
}

// Unquote strips the quotes ProgramLog puts around logged strings.
func Unquote(s string) string {
	if len(s) >= 2 && s[0] == '"' && s[len(s)-1] == '"' {
		return s[1 : len(s)-1]
	}
	return s
}

func MakeEvent(e cadence.Event) Event {
	ev := Event{Raw: e}
	if e.EventType == nil {
		return ev
	}
	ev.Type = e.EventType.ID()
	// field order as delivered in the payload: taken from the JSON-CDC encoding
	b, err := cdcjson.Encode(e)
	if err != nil {
		ev.Fields = []string{"<unencodable>"}
		ev.Values = []string{err.Error()}
		return ev
	}
	var doc struct {
		Value struct {
			Fields []struct {
				Name string `json:"name"`
			} `json:"fields"`
		} `json:"value"`
	}
	_ = json.Unmarshal(b, &doc)
	for _, f := range doc.Value.Fields {
		ev.Fields = append(ev.Fields, f.Name)
		fv := e.SearchFieldByName(f.Name)
		if fv != nil {
			ev.Values = append(ev.Values, fv.String())
		} else {
			ev.Values = append(ev.Values, "<nil>")
		}
	}
	return ev
}

func (e Event) String() string {
	parts := make([]string, len(e.Fields))
	for i := range e.Fields {
		parts[i] = e.Fields[i] + "=" + e.Values[i]
	}
	return e.Type + "(" + strings.Join(parts, ",") + ")"
}

func (w *World) begin() {
	w.logs, w.events, w.writes, w.uuids = nil, nil, nil, nil
	w.trace = nil
	w.callCount = map[string]int{}
	registerWorld(w) // hook events are routed to this world while it executes
	w.RI.Programs = map[runtime.Location]*runtime.Program{}
}

func (w *World) snapshotCodes() map[common.AddressLocation][]byte {
	m := make(map[common.AddressLocation][]byte, len(w.Codes))
	for k, v := range w.Codes {
		m[k] = v
	}
	return m
}

func (w *World) ctx(loc common.Location, engine string, script bool) runtime.Context {
	c := runtime.Context{
		Interface:        w.iface,
		Location:         loc,
		UseVM:            engine != "interp",
		MemoryGauge:      w.MemoryGauge,
		ComputationGauge: w.ComputationGauge,
	}
	if engine == "vmopt" {
		c.Environment = newPeepholeEnvironment(w.cfg, script)
		if c.Environment == nil {
			panic("engine vmopt needs the harness to be built with -tags verif")
		}
	}
	return c
}

// Engines lists the execution engines: tree-walking interpreter, bytecode VM, VM with peephole optimisation.
var Engines = []string{"interp", "vm", "vmopt"}

func engineOf(useVM bool) string {
	if useVM {
		return "vm"
	}
	return "interp"
}

func (w *World) nextTxLoc() common.TransactionLocation {
	w.next++
	var l common.TransactionLocation
	n := w.next
	for i := 0; i < 8; i++ {
		l[31-i] = byte(n >> (8 * i))
		l[7-i] = byte(w.id >> (8 * i))
	}
	return l
}

func (w *World) nextScriptLoc() common.ScriptLocation {
	w.next++
	var l common.ScriptLocation
	n := w.next
	for i := 0; i < 8; i++ {
		l[31-i] = byte(n >> (8 * i))
		l[7-i] = byte(w.id >> (8 * i))
	}
	return l
}

// Tx executes a transaction. Go panics escaping the runtime are caught and
// reported with Class "crash".
func (w *World) Tx(src string, signers []common.Address, useVM bool, args ...[]byte) (res Result) {
	return w.TxE(src, signers, engineOf(useVM), args...)
}

// TxE executes a transaction on the named engine ("interp", "vm", "vmopt").
func (w *World) TxE(src string, signers []common.Address, engine string, args ...[]byte) (res Result) {
	w.begin()
	w.Signers = signers
	saved := w.snapshotCodes()
	defer func() {
		unregisterWorld(w)
		if r := recover(); r != nil {
			res.Err = fmt.Errorf("escaped panic: %v", r)
			res.Class = "crash"
		}
		if res.Err != nil {
			w.Codes = saved
		}
		res.Logs, res.Events, res.Writes, res.UUIDs, res.Trace = w.logs, w.events, w.writes, w.uuids, w.trace
		w.record("tx", src, signers, args, engine, res.Class)
	}()
	err := w.RT.ExecuteTransaction(
		runtime.Script{Source: []byte(src), Arguments: args},
		w.ctx(w.nextTxLoc(), engine, false),
	)
	res.Err = err
	res.Class = Classify(err)
	return
}

func (w *World) Script(src string, useVM bool, args ...[]byte) (res Result) {
	return w.ScriptE(src, engineOf(useVM), args...)
}

// ScriptE executes a script on the named engine.
func (w *World) ScriptE(src string, engine string, args ...[]byte) (res Result) {
	w.begin()
	saved := w.snapshotCodes()
	defer func() {
		unregisterWorld(w)
		if r := recover(); r != nil {
			res.Err = fmt.Errorf("escaped panic: %v", r)
			res.Class = "crash"
		}
		w.Codes = saved
		res.Logs, res.Events, res.Writes, res.UUIDs, res.Trace = w.logs, w.events, w.writes, w.uuids, w.trace
		w.record("script", src, nil, args, engine, res.Class)
	}()
	v, err := w.RT.ExecuteScript(
		runtime.Script{Source: []byte(src), Arguments: args},
		w.ctx(w.nextScriptLoc(), engine, true),
	)
	res.Value = v
	res.Err = err
	res.Class = Classify(err)
	return
}

// InvokeE calls a contract function through runtime.InvokeContractFunction on the named engine.
func (w *World) InvokeE(addr common.Address, contract, function string, engine string) (res Result) {
	w.begin()
	saved := w.snapshotCodes()
	defer func() {
		unregisterWorld(w)
		if r := recover(); r != nil {
			res.Err = fmt.Errorf("escaped panic: %v", r)
			res.Class = "crash"
		}
		if res.Err != nil {
			w.Codes = saved
		}
		res.Logs, res.Events, res.Writes, res.UUIDs, res.Trace = w.logs, w.events, w.writes, w.uuids, w.trace
	}()
	v, err := w.RT.InvokeContractFunction(
		common.AddressLocation{Address: addr, Name: contract},
		function, nil, nil,
		w.ctx(w.nextTxLoc(), engine, false),
	)
	res.Value = v
	res.Err = err
	res.Class = Classify(err)
	return
}

// Deploy adds a contract through a real transaction signed by addr.
func (w *World) Deploy(addr common.Address, name, code string) error {
	tx := fmt.Sprintf(`transaction { prepare(s: auth(Contracts) &Account) { s.contracts.add(name: %q, code: "%s".decodeHex()) } }`,
		name, hex.EncodeToString([]byte(code)))
	r := w.Tx(tx, []common.Address{addr}, false)
	return r.Err
}

// Classify maps an execution error to ok / user:<T> / internal:<T> / external:<T>.
// The innermost classified error in the chain decides.
func Classify(err error) string {
	if err == nil {
		return "ok"
	}
	var class string
	var walk func(e error, depth int)
	walk = func(e error, depth int) {
		if e == nil || depth > 50 {
			return
		}
		name := typeName(e)
		switch e.(type) {
		case errors.ExternalError, errors.ExternalNonError:
			class = "external:" + name
			return // what is inside is the host's business
		}
		if _, ok := e.(errors.InternalError); ok {
			class = "internal:" + name
		} else if _, ok := e.(errors.UserError); ok {
			class = "user:" + name
		}
		if p, ok := e.(errors.ParentError); ok {
			for _, c := range p.ChildErrors() {
				walk(c, depth+1)
			}
		}
		if u, ok := e.(interface{ Unwrap() error }); ok {
			walk(u.Unwrap(), depth+1)
		}
	}
	walk(err, 0)
	if class == "" {
		if errors.IsInternalError(err) {
			return "internal:" + typeName(err)
		}
		if errors.IsUserError(err) {
			return "user:" + typeName(err)
		}
		return "unclassified:" + typeName(err)
	}
	// An internal error anywhere in the chain dominates.
	if errors.IsInternalError(err) && !strings.HasPrefix(class, "internal:") && !strings.HasPrefix(class, "external:") {
		return "internal:" + class
	}
	return class
}

func typeName(e error) string {
	t := reflect.TypeOf(e)
	for t.Kind() == reflect.Ptr {
		t = t.Elem()
	}
	return t.Name()
}

// IsInternal reports whether a class denotes an internal error or crash.
func IsInternal(class string) bool {
	return strings.HasPrefix(class, "internal:") || class == "crash" || strings.HasPrefix(class, "unclassified:")
}
