package host

import (
	"crypto/sha256"

	"github.com/onflow/cadence/common"
	"github.com/onflow/cadence/interpreter"
	"github.com/onflow/cadence/runtime"
	"github.com/onflow/cadence/stdlib"
)

// FullHost installs deterministic in-memory implementations of the optional host services
// (account creation, account keys, balances, storage usage, hashing, signatures, key validation)
// so that corpus programs can exercise every callback.
func (w *World) FullHost() *World {
	w.full = true
	nextAcct := byte(0x20)
	keys := map[common.Address][]*stdlib.AccountKey{}
	w.RI.OnCreateAccount = func(payer runtime.Address, _ interpreter.InvocationContext) (runtime.Address, error) {
		nextAcct++
		return Addr(nextAcct), nil
	}
	w.RI.OnAddAccountKey = func(a runtime.Address, pk *stdlib.PublicKey, h runtime.HashAlgorithm, weight int) (*stdlib.AccountKey, error) {
		k := &stdlib.AccountKey{KeyIndex: uint32(len(keys[a])), PublicKey: pk, HashAlgo: h, Weight: weight}
		keys[a] = append(keys[a], k)
		return k, nil
	}
	w.RI.OnGetAccountKey = func(a runtime.Address, i uint32) (*stdlib.AccountKey, error) {
		if int(i) >= len(keys[a]) {
			return nil, nil
		}
		return keys[a][i], nil
	}
	w.RI.OnAccountKeysCount = func(a runtime.Address) (uint32, error) { return uint32(len(keys[a])), nil }
	w.RI.OnRemoveAccountKey = func(a runtime.Address, i uint32) (*stdlib.AccountKey, error) {
		if int(i) >= len(keys[a]) {
			return nil, nil
		}
		k := *keys[a][i]
		k.IsRevoked = true
		keys[a][i] = &k
		return &k, nil
	}
	w.RI.OnGetAccountBalance = func(runtime.Address) (uint64, error) { return 100_0000_0000, nil }
	w.RI.OnGetAccountAvailableBalance = func(runtime.Address) (uint64, error) { return 90_0000_0000, nil }
	w.RI.OnGetStorageUsed = func(runtime.Address) (uint64, error) { return 1234, nil }
	w.RI.OnGetStorageCapacity = func(runtime.Address) (uint64, error) { return 100000, nil }
	w.RI.OnHash = func(data []byte, tag string, _ runtime.HashAlgorithm) ([]byte, error) {
		s := sha256.Sum256(append([]byte(tag), data...))
		return s[:], nil
	}
	w.RI.OnVerifySignature = func([]byte, string, []byte, []byte, runtime.SignatureAlgorithm, runtime.HashAlgorithm) (bool, error) {
		return true, nil
	}
	w.RI.OnValidatePublicKey = func(*stdlib.PublicKey) error { return nil }
	return w
}
