//go:build verif

package host

import (
	"sync"

	"github.com/onflow/cadence/common"
	"github.com/onflow/cadence/runtime"
)

// Routing of the runtime's global verification hook to the World that owns the executing
// location (locations carry the world id in their first 8 bytes).
var worlds sync.Map // uint64 -> *World

func init() {
	runtime.VerifHook = func(event string, location runtime.Location, ok bool) {
		id, found := worldIDOf(location)
		if !found {
			return
		}
		if v, ok2 := worlds.Load(id); ok2 {
			w := v.(*World)
			w.trace = append(w.trace, TraceEvent{Seq: len(w.trace), Ev: event, Ok: ok})
		}
	}
}

func registerWorld(w *World)   { worlds.Store(w.id, w) }
func unregisterWorld(w *World) { worlds.Delete(w.id) }

const HooksEnabled = true

func worldIDOf(l common.Location) (uint64, bool) {
	var b []byte
	switch l := l.(type) {
	case common.TransactionLocation:
		b = l[:8]
	case common.ScriptLocation:
		b = l[:8]
	default:
		return 0, false
	}
	var id uint64
	for i := 0; i < 8; i++ {
		id = id<<8 | uint64(b[i])
	}
	return id, true
}

// newEnvironment returns a VM environment with peephole optimisations switched on.
func newPeepholeEnvironment(cfg runtime.Config, script bool) runtime.Environment {
	var env runtime.Environment
	if script {
		env = runtime.NewScriptVMEnvironment(cfg)
	} else {
		env = runtime.NewBaseVMEnvironment(cfg)
	}
	env.(interface{ VerifSetPeepholeOptimizations(bool) }).VerifSetPeepholeOptimizations(true)
	return env
}
