package host

import (
	"encoding/hex"
	"encoding/json"
	"fmt"
	"os"
	"path/filepath"
	"strconv"
	"sync"

	"github.com/onflow/cadence/common"
)

// Recording of everything executed through any World (for the cross-engine differential check C34
// and the internal-error monitor C01): when VERIF_RECORD_DIR is set, every execution is appended to
// <dir>/hist-<pid>.ndjson as {w, i, kind, src, signers, args, engine, skip}. Executions that depend on
// host state the replayer cannot reproduce (gauges, fault plans, scripted randomness) are marked skip.
type RecordedExec struct {
	W       uint64   `json:"w"`
	I       int      `json:"i"`
	Kind    string   `json:"kind"` // tx | script
	Src     string   `json:"src"`
	Signers []string `json:"signers,omitempty"`
	Args    []string `json:"args,omitempty"`
	Engine  string   `json:"engine"`
	Full    bool     `json:"full,omitempty"` // world uses FullHost services
	Skip    string   `json:"skip,omitempty"`
	Class   string   `json:"class"`
}

var (
	recOnce sync.Once
	recMu   sync.Mutex
	recFile *os.File
)

func recordingEnabled() bool { return os.Getenv("VERIF_RECORD_DIR") != "" }

// recordEvery: only worlds whose id is a multiple of VERIF_RECORD_EVERY are recorded (sampling).
var recordEvery = func() uint64 {
	n, err := strconv.ParseUint(os.Getenv("VERIF_RECORD_EVERY"), 10, 64)
	if err != nil || n == 0 {
		return 1
	}
	return n
}()

func (w *World) record(kind, src string, signers []common.Address, args [][]byte, engine, class string) {
	if !recordingEnabled() || w.id%recordEvery != 0 {
		return
	}
	recOnce.Do(func() {
		dir := os.Getenv("VERIF_RECORD_DIR")
		_ = os.MkdirAll(dir, 0o755)
		f, err := os.OpenFile(filepath.Join(dir, fmt.Sprintf("hist-%d.ndjson", os.Getpid())), os.O_CREATE|os.O_WRONLY|os.O_APPEND, 0o644)
		if err == nil {
			recFile = f
		}
	})
	if recFile == nil {
		return
	}
	e := RecordedExec{W: w.id, I: w.nrec, Kind: kind, Src: src, Engine: engine, Full: w.full, Class: class}
	w.nrec++
	for _, s := range signers {
		e.Signers = append(e.Signers, s.Hex())
	}
	for _, a := range args {
		e.Args = append(e.Args, hex.EncodeToString(a))
	}
	switch {
	case w.ComputationGauge != nil || w.MemoryGauge != nil:
		e.Skip = "gauge"
	case len(w.Faults) > 0:
		e.Skip = "faults"
	case w.Random != nil:
		e.Skip = "random"
	case w.cfg.StackDepthLimit != 0:
		e.Skip = "depthlimit"
	}
	b, _ := json.Marshal(e)
	recMu.Lock()
	recFile.Write(append(b, '\n'))
	recMu.Unlock()
}
