package host

import (
	"fmt"
	"time"

	"github.com/onflow/atree"
	"go.opentelemetry.io/otel/attribute"

	"github.com/onflow/cadence"
	"github.com/onflow/cadence/ast"
	"github.com/onflow/cadence/common"
	"github.com/onflow/cadence/interpreter"
	"github.com/onflow/cadence/runtime"
	"github.com/onflow/cadence/sema"
)

// TraceEvent is one host callback (or runtime hook event) observed during an execution.
type TraceEvent struct {
	Seq    int    `json:"seq"`
	Ev     string `json:"ev"`               // callback name or hook event (ExecEnd, CommitBegin, CommitEnd)
	Detail string `json:"detail,omitempty"` // register key, code location, ...
	Ok     bool   `json:"ok"`               // for hook events; for callbacks: no fault injected
}

// Fault makes the Index-th (0-based) call of callback Kind fail.
type Fault struct {
	Kind  string // callback name, e.g. "GetValue"
	Index int
	Panic bool // panic instead of returning an error
	Fired bool
}

type InjectedError struct{ Kind string }

func (e InjectedError) Error() string { return "injected host failure in " + e.Kind }

// Traced wraps the host interface: every callback is appended to the World's trace with a
// sequence number and can be made to fail by the World's fault plan.
type Traced struct {
	runtime.Interface
	w *World
}

func (t *Traced) hit(kind, detail string) error {
	w := t.w
	n := w.callCount[kind]
	w.callCount[kind] = n + 1
	ev := TraceEvent{Seq: len(w.trace), Ev: kind, Detail: detail, Ok: true}
	for _, f := range w.Faults {
		if !f.Fired && f.Kind == kind && f.Index == n {
			f.Fired = true
			ev.Ok = false
			w.trace = append(w.trace, ev)
			if f.Panic {
				panic(InjectedError{Kind: kind})
			}
			return InjectedError{Kind: kind}
		}
	}
	if w.RecordTrace {
		w.trace = append(w.trace, ev)
	}
	return nil
}

func (t *Traced) ResolveLocation(ids []runtime.Identifier, l runtime.Location) ([]runtime.ResolvedLocation, error) {
	if err := t.hit("ResolveLocation", ""); err != nil {
		return nil, err
	}
	return t.Interface.ResolveLocation(ids, l)
}
func (t *Traced) GetCode(l runtime.Location) ([]byte, error) {
	if err := t.hit("GetCode", l.String()); err != nil {
		return nil, err
	}
	return t.Interface.GetCode(l)
}
func (t *Traced) GetOrLoadProgram(l runtime.Location, load func() (*runtime.Program, error)) (*runtime.Program, error) {
	if err := t.hit("GetOrLoadProgram", l.String()); err != nil {
		return nil, err
	}
	return t.Interface.GetOrLoadProgram(l, load)
}
func (t *Traced) GetValue(o, k []byte) ([]byte, error) {
	if err := t.hit("GetValue", fmt.Sprintf("%x|%x", o, k)); err != nil {
		return nil, err
	}
	return t.Interface.GetValue(o, k)
}
func (t *Traced) SetValue(o, k, v []byte) error {
	if err := t.hit("SetValue", fmt.Sprintf("%x|%x", o, k)); err != nil {
		return err
	}
	return t.Interface.SetValue(o, k, v)
}
func (t *Traced) ValueExists(o, k []byte) (bool, error) {
	if err := t.hit("ValueExists", fmt.Sprintf("%x|%x", o, k)); err != nil {
		return false, err
	}
	return t.Interface.ValueExists(o, k)
}
func (t *Traced) AllocateSlabIndex(o []byte) (atree.SlabIndex, error) {
	if err := t.hit("AllocateSlabIndex", fmt.Sprintf("%x", o)); err != nil {
		return atree.SlabIndex{}, err
	}
	return t.Interface.AllocateSlabIndex(o)
}
func (t *Traced) CreateAccount(p runtime.Address, c interpreter.InvocationContext) (runtime.Address, error) {
	if err := t.hit("CreateAccount", ""); err != nil {
		return runtime.Address{}, err
	}
	return t.Interface.CreateAccount(p, c)
}
func (t *Traced) AddAccountKey(a runtime.Address, k *runtime.PublicKey, h runtime.HashAlgorithm, w int) (*runtime.AccountKey, error) {
	if err := t.hit("AddAccountKey", ""); err != nil {
		return nil, err
	}
	return t.Interface.AddAccountKey(a, k, h, w)
}
func (t *Traced) GetAccountKey(a runtime.Address, i uint32) (*runtime.AccountKey, error) {
	if err := t.hit("GetAccountKey", ""); err != nil {
		return nil, err
	}
	return t.Interface.GetAccountKey(a, i)
}
func (t *Traced) AccountKeysCount(a runtime.Address) (uint32, error) {
	if err := t.hit("AccountKeysCount", ""); err != nil {
		return 0, err
	}
	return t.Interface.AccountKeysCount(a)
}
func (t *Traced) RevokeAccountKey(a runtime.Address, i uint32) (*runtime.AccountKey, error) {
	if err := t.hit("RevokeAccountKey", ""); err != nil {
		return nil, err
	}
	return t.Interface.RevokeAccountKey(a, i)
}
func (t *Traced) UpdateAccountContractCode(l common.AddressLocation, c []byte) error {
	if err := t.hit("UpdateAccountContractCode", l.String()); err != nil {
		return err
	}
	return t.Interface.UpdateAccountContractCode(l, c)
}
func (t *Traced) GetAccountContractCode(l common.AddressLocation) ([]byte, error) {
	if err := t.hit("GetAccountContractCode", l.String()); err != nil {
		return nil, err
	}
	return t.Interface.GetAccountContractCode(l)
}
func (t *Traced) RemoveAccountContractCode(l common.AddressLocation) error {
	if err := t.hit("RemoveAccountContractCode", l.String()); err != nil {
		return err
	}
	return t.Interface.RemoveAccountContractCode(l)
}
func (t *Traced) GetSigningAccounts() ([]runtime.Address, error) {
	if err := t.hit("GetSigningAccounts", ""); err != nil {
		return nil, err
	}
	return t.Interface.GetSigningAccounts()
}
func (t *Traced) ProgramLog(s string) error {
	if err := t.hit("ProgramLog", logDetail(s)); err != nil {
		return err
	}
	return t.Interface.ProgramLog(s)
}
func (t *Traced) EmitEvent(e cadence.Event) error {
	if err := t.hit("EmitEvent", ""); err != nil {
		return err
	}
	return t.Interface.EmitEvent(e)
}
func (t *Traced) GenerateUUID() (uint64, error) {
	if err := t.hit("GenerateUUID", ""); err != nil {
		return 0, err
	}
	return t.Interface.GenerateUUID()
}
func (t *Traced) DecodeArgument(b []byte, ty cadence.Type) (cadence.Value, error) {
	if err := t.hit("DecodeArgument", ""); err != nil {
		return nil, err
	}
	return t.Interface.DecodeArgument(b, ty)
}
func (t *Traced) GetCurrentBlockHeight() (uint64, error) {
	if err := t.hit("GetCurrentBlockHeight", ""); err != nil {
		return 0, err
	}
	return t.Interface.GetCurrentBlockHeight()
}
func (t *Traced) GetBlockAtHeight(h uint64) (runtime.Block, bool, error) {
	if err := t.hit("GetBlockAtHeight", ""); err != nil {
		return runtime.Block{}, false, err
	}
	return t.Interface.GetBlockAtHeight(h)
}
func (t *Traced) ReadRandom(b []byte) error {
	if err := t.hit("ReadRandom", ""); err != nil {
		return err
	}
	return t.Interface.ReadRandom(b)
}
func (t *Traced) VerifySignature(sig []byte, tag string, data, pk []byte, sa runtime.SignatureAlgorithm, ha runtime.HashAlgorithm) (bool, error) {
	if err := t.hit("VerifySignature", ""); err != nil {
		return false, err
	}
	return t.Interface.VerifySignature(sig, tag, data, pk, sa, ha)
}
func (t *Traced) Hash(d []byte, tag string, ha runtime.HashAlgorithm) ([]byte, error) {
	if err := t.hit("Hash", ""); err != nil {
		return nil, err
	}
	return t.Interface.Hash(d, tag, ha)
}
func (t *Traced) GetAccountBalance(a common.Address) (uint64, error) {
	if err := t.hit("GetAccountBalance", ""); err != nil {
		return 0, err
	}
	return t.Interface.GetAccountBalance(a)
}
func (t *Traced) GetAccountAvailableBalance(a common.Address) (uint64, error) {
	if err := t.hit("GetAccountAvailableBalance", ""); err != nil {
		return 0, err
	}
	return t.Interface.GetAccountAvailableBalance(a)
}
func (t *Traced) GetStorageUsed(a runtime.Address) (uint64, error) {
	if err := t.hit("GetStorageUsed", ""); err != nil {
		return 0, err
	}
	return t.Interface.GetStorageUsed(a)
}
func (t *Traced) GetStorageCapacity(a runtime.Address) (uint64, error) {
	if err := t.hit("GetStorageCapacity", ""); err != nil {
		return 0, err
	}
	return t.Interface.GetStorageCapacity(a)
}
func (t *Traced) ValidatePublicKey(k *runtime.PublicKey) error {
	if err := t.hit("ValidatePublicKey", ""); err != nil {
		return err
	}
	return t.Interface.ValidatePublicKey(k)
}
func (t *Traced) GetAccountContractNames(a runtime.Address) ([]string, error) {
	if err := t.hit("GetAccountContractNames", ""); err != nil {
		return nil, err
	}
	return t.Interface.GetAccountContractNames(a)
}
func (t *Traced) RecordTrace(op string, d time.Duration, attrs []attribute.KeyValue) {
	t.Interface.RecordTrace(op, d, attrs)
}
func (t *Traced) BLSVerifyPOP(k *runtime.PublicKey, s []byte) (bool, error) {
	if err := t.hit("BLSVerifyPOP", ""); err != nil {
		return false, err
	}
	return t.Interface.BLSVerifyPOP(k, s)
}
func (t *Traced) BLSAggregateSignatures(s [][]byte) ([]byte, error) {
	if err := t.hit("BLSAggregateSignatures", ""); err != nil {
		return nil, err
	}
	return t.Interface.BLSAggregateSignatures(s)
}
func (t *Traced) BLSAggregatePublicKeys(k []*runtime.PublicKey) (*runtime.PublicKey, error) {
	if err := t.hit("BLSAggregatePublicKeys", ""); err != nil {
		return nil, err
	}
	return t.Interface.BLSAggregatePublicKeys(k)
}
func (t *Traced) GenerateAccountID(a common.Address) (uint64, error) {
	if err := t.hit("GenerateAccountID", ""); err != nil {
		return 0, err
	}
	return t.Interface.GenerateAccountID(a)
}
func (t *Traced) RecoverProgram(p *ast.Program, l common.Location) ([]byte, error) {
	return t.Interface.RecoverProgram(p, l)
}
func (t *Traced) ValidateAccountCapabilitiesGet(c interpreter.AccountCapabilityGetValidationContext, a interpreter.AddressValue, p interpreter.PathValue, w, cb *sema.ReferenceType) (bool, error) {
	if err := t.hit("ValidateAccountCapabilitiesGet", ""); err != nil {
		return false, err
	}
	return t.Interface.ValidateAccountCapabilitiesGet(c, a, p, w, cb)
}
func (t *Traced) ValidateAccountCapabilitiesPublish(c interpreter.AccountCapabilityPublishValidationContext, a interpreter.AddressValue, p interpreter.PathValue, cb *interpreter.ReferenceStaticType) (bool, error) {
	if err := t.hit("ValidateAccountCapabilitiesPublish", ""); err != nil {
		return false, err
	}
	return t.Interface.ValidateAccountCapabilitiesPublish(c, a, p, cb)
}

// Metrics passthrough (the runtime type-asserts the interface for Metrics).
func (t *Traced) ProgramParsed(l runtime.Location, d time.Duration) {
	if m, ok := t.Interface.(runtime.Metrics); ok {
		m.ProgramParsed(l, d)
	}
}
func (t *Traced) ProgramChecked(l runtime.Location, d time.Duration) {
	if m, ok := t.Interface.(runtime.Metrics); ok {
		m.ProgramChecked(l, d)
	}
}
func (t *Traced) ProgramInterpreted(l runtime.Location, d time.Duration) {
	if m, ok := t.Interface.(runtime.Metrics); ok {
		m.ProgramInterpreted(l, d)
	}
}

func logDetail(s string) string {
	s = Unquote(s)
	if len(s) > 48 {
		s = s[:48]
	}
	return s
}
