//go:build !verif

package host

import "github.com/onflow/cadence/runtime"

func registerWorld(w *World)   {}
func unregisterWorld(w *World) {}

const HooksEnabled = false

func newPeepholeEnvironment(cfg runtime.Config, script bool) runtime.Environment { return nil }
